// life.cpp — histories over sandbox objects and callback owners (C13, C14, and the
// registry part of C04/C12): create(ok/fail) / destroy / malloc / free / by-name
// lookup / register / unregister / move / guest calls of entry points /
// example-based translation.  One history per case; an abort ends the history.
// -DLIFE_VERIF (verif32, 4 callback slots) or -DLIFE_NOOP (rlbox_noop_sandbox, 64 slots).
#define RLBOX_USE_EXCEPTIONS
#define RLBOX_SINGLE_THREADED_INVOCATIONS
#define RLBOX_USE_STATIC_CALLS() life_static_lookup
#include "rlbox.hpp"
#ifdef LIFE_DYLIB
// the other shipped back end: everything as for LIFE_NOOP (which this define implies), the sandbox type is
// rlbox_dylib_sandbox bound to libc.so.6 (never called into: the guest functions of this driver are looked up statically)
#  define LIFE_NOOP
// (the back end's table of entry points is inspected by the "occ" operation: private members made visible to this driver)
#  define private public
#  define protected public
#  include "rlbox_dylib_sandbox.hpp"
#  undef private
#  undef protected
using Sbx = rlbox::rlbox_dylib_sandbox;
#elif defined(LIFE_NOOP)
#  define private public
#  define protected public
#  include "rlbox_noop_sandbox.hpp"
#  undef private
#  undef protected
using Sbx = rlbox::rlbox_noop_sandbox;
#else
#  include "verif_sandbox.hpp"
#  ifdef LIFE_VERIF16
using Sbx = rlbox::rlbox_verif16_sandbox;   // 64 KiB regions (ThreadSanitizer builds: mapping 4 GiB per create is slow under TSan)
#  else
using Sbx = rlbox::rlbox_verif32_sandbox;
#  endif
#endif
#include "common.hpp"
#include <memory>

using namespace vh;
using sandbox_t = rlbox::rlbox_sandbox<Sbx>;
#define life_static_lookup(f) reinterpret_cast<void*>(&guest_##f)

static thread_local int g_ran = -1;   // which application function ran last
// multi-threaded use (mt.cpp): the thread's index selects disjoint fixed region bases; a hook runs between operations
static thread_local int g_thread = -1;
static void (*g_between_ops)() = nullptr;
#ifdef LIFE_NO_FIXED_BASE
// (ThreadSanitizer builds cannot map at fixed addresses: the regions go wherever mmap puts them)
static thread_local uintptr_t g_actual_base[3] = { 0, 0, 0 };
static char g_nowhere[64];
#endif
static uintptr_t slot_base_of(int i)
{
#ifdef LIFE_NO_FIXED_BASE
  return g_actual_base[i] ? g_actual_base[i] : reinterpret_cast<uintptr_t>(g_nowhere);
#endif
  if (g_thread < 0) return (uintptr_t(i) + 1) << 44;
  return (uintptr_t(1) << 44) + (uintptr_t(3 * g_thread + i) << 33);
}
template<int K>
static void cbf(sandbox_t&) { g_ran = K; }
using owner_t = rlbox::sandbox_callback<void (*)(), Sbx>;

template<int K>
static owner_t reg_k(sandbox_t& s) { return s.register_callback(cbf<K>); }
static owner_t reg(sandbox_t& s, int k);
#ifndef LIFE_NOOP
static sandbox_t* g_ur_sb = nullptr;
static int g_ur_fn = -1;
static std::string g_ur_result;
static std::vector<owner_t> g_ur_extra;
static void ur_hook(const char* site)
{
  if (std::strcmp(site, "be.unreg") != 0 || g_ur_result != "none") return;
  try { g_ur_extra.push_back(reg(*g_ur_sb, g_ur_fn)); g_ur_result = "accepted"; }
  catch (const std::runtime_error&) { g_ur_result = "refused"; }
}
#endif
static owner_t reg(sandbox_t& s, int k)
{
  switch (k) {
#define R(K) case K: return reg_k<K>(s);
    R(0) R(1) R(2) R(3) R(4) R(5) R(6) R(7)
#undef R
    default: throw std::runtime_error("HARNESS bad function id");
  }
}
template<int K>
static void fill_from(sandbox_t& s, std::vector<owner_t>& v, int n)
{
  if constexpr (K < 170) {
    if (n > 0) { v.push_back(s.register_callback(cbf<K>)); fill_from<K + 1>(s, v, n - 1); }
  }
}

// guest side: call through an entry point
#ifdef LIFE_NOOP
void callcb(void (*)());
static void (*g_in_guest)() = nullptr;     // multi-threaded use: lets other threads run while this one is inside the sandbox
static void guest_callcb(void (*cb)()) { if (g_in_guest) g_in_guest(); cb(); }
#  ifdef RLBOX_EMBEDDER_PROVIDES_TLS_STATIC_VARIABLES
// the embedder-provided thread-local-storage configuration of the shipped back ends
#    ifdef LIFE_DYLIB
RLBOX_DYLIB_SANDBOX_STATIC_VARIABLES();
#    else
RLBOX_NOOP_SANDBOX_STATIC_VARIABLES();
#    endif
#  endif
#else
void callcb(void (*)());
static void guest_callcb(Sbx::T_PointerType cb) { Sbx::guest_call_callback<void>(cb); }
void callslot(unsigned);
static void guest_callslot(uint32_t slot) { Sbx::guest_call_callback<void>(Sbx::CB_BASE + slot); }
// one library per sandbox object index: the same names at different addresses
static const rlbox::verif_lib g_libs[3] = { { { "f5", (void*)0x1005 }, { "f6", (void*)0x1006 }, { "f7", (void*)0x1007 } },
                                            { { "f5", (void*)0x1105 }, { "f6", (void*)0x1106 }, { "f7", (void*)0x1107 } },
                                            { { "f5", (void*)0x1205 }, { "f6", (void*)0x1206 }, { "f7", (void*)0x1207 } } };
void f5(); void f6(); void f7();   // only named (decltype + spelling) by get_sandbox_function_address
static thread_local char g_namebuf[8];   // a caller-owned name buffer that is reused for every by-name lookup ("lb"/"ilb")
#endif

static std::string run_case(const toks_t& t)
{
  constexpr int NSB = 3, NOWN = 3;
  std::unique_ptr<sandbox_t> sb[NSB];
  bool created[NSB] = { false, false, false };
  for (auto& s : sb) s = std::make_unique<sandbox_t>();
  std::string out;
  {
    owner_t owners[NOWN];
    int own_sb[NOWN] = { -1, -1, -1 };   // harness bookkeeping: which sandbox an owner's registration belongs to
    int own_fn[NOWN] = { -1, -1, -1 };   // ... and which function it registered
    std::vector<owner_t> extra;
    for (size_t n = 1; n < t.size(); n++) {
      // a leading '!' makes the operation's abort RECOVERABLE: it is reported and the history goes on
      const bool recover = !t[n].empty() && t[n][0] == '!';
      toks_t o = split(recover ? t[n].substr(1) : t[n], ':');
      const std::string& c = o[0];
      if (!out.empty()) out += ",";
      if (g_between_ops) g_between_ops();
      try {
        if (c == "c") {
          int i = std::stoi(o[1]);
          bool ok = o[2] == "1";
          int failmode = ok ? 0 : (o[2] == "2" ? 2 : 1);      // c:i:0 fails at once, c:i:2 fails late (see verif_sandbox.hpp)
#ifdef LIFE_DYLIB
          bool r = sb[i]->create_sandbox("libc.so.6");
#elif defined(LIFE_NOOP)
          bool r = sb[i]->create_sandbox();
#else
#  ifdef LIFE_NO_FIXED_BASE
          Sbx::fixed_base_hint = 0;
          bool r = sb[i]->create_sandbox(&g_libs[i], failmode);
          if (r) g_actual_base[i] = sb[i]->get_sandbox_impl()->region_base();
#  else
          Sbx::fixed_base_hint = slot_base_of(i);
          bool r = sb[i]->create_sandbox(&g_libs[i], failmode);
          Sbx::fixed_base_hint = 0;
#  endif
#endif
          if (r) created[i] = true;
          out += std::string("c=") + (r ? "1" : "0");
        } else if (c == "d") {
          int i = std::stoi(o[1]);
          sb[i]->destroy_sandbox();
          created[i] = false;
#if defined(LIFE_NO_FIXED_BASE) && !defined(LIFE_NOOP)
          g_actual_base[i] = 0;
#endif
          out += "d=ok";
        } else if (c == "m") {
          auto p = sb[std::stoi(o[1])]->malloc_in_sandbox<int>();
          out += std::string("m=") + (p.UNSAFE_unverified() ? "ptr" : "null");
        } else if (c == "f") {
#ifdef LIFE_NOOP
          out += "f=skip";
#else
          int i = std::stoi(o[1]);
          auto impl = sb[i]->get_sandbox_impl();
          size_t before = impl->freed.size();
          rlbox::tainted<int*, Sbx> p = nullptr;   // freeing null still reaches the back end when created
          sb[i]->free_in_sandbox(p);
          out += std::string("f=") + (impl->freed.size() > before ? "done" : "ignored");
#endif
        } else if (c == "fv" || c == "fo") {
#ifdef LIFE_NOOP
          out += c + "=skip";
#else
          // the other two overloads of free_in_sandbox: through a tainted_volatile reference (a pointer cell that
          // lives in the memory of sandbox j, which must be live to hold it) and through a tainted_opaque
          int i = std::stoi(o[1]);
          auto impl = sb[i]->get_sandbox_impl();
          size_t before = impl->freed.size();
          if (c == "fo") {
            rlbox::tainted<int*, Sbx> p = nullptr;
            sb[i]->free_in_sandbox(p.to_opaque());
            out += std::string("fo=") + (impl->freed.size() > before ? "done" : "ignored");
          } else {
            int j = std::stoi(o[2]);
            if (!created[j]) { out += "fv=nocell"; }
            else {
              auto cellp = sb[j]->malloc_in_sandbox<int*>();
              *cellp = nullptr;
              before = impl->freed.size();
              sb[i]->free_in_sandbox(*cellp);
              out += std::string("fv=") + (impl->freed.size() > before ? "done" : "ignored");
            }
          }
#endif
        } else if (c == "go" && (owners[std::stoi(o[1])].is_unregistered() || !created[own_sb[std::stoi(o[1])]])) {
          out += owners[std::stoi(o[1])].is_unregistered() ? "go=dead" : "go=notcreated";
        } else if ((c == "l" || c == "il" || c == "gs" || c == "lb" || c == "ilb" || c == "fa" || c == "occ") && !created[std::stoi(o[1])]) {
          // invoking / looking up on a sandbox that is not created is outside the API contract: not exercised
          out += c + "=notcreated";
        } else if (c == "l" || c == "il") {
#ifdef LIFE_NOOP
          out += c + "=skip";
#else
          int i = std::stoi(o[1]);
          auto impl = sb[i]->get_sandbox_impl();
          int before = impl->lookups;
          std::string name = "f" + o[2];
          if (c == "l") sb[i]->lookup_symbol(name.c_str()); else sb[i]->internal_lookup_symbol(name.c_str());
          out += c + "=" + (impl->lookups > before ? "asked" : "cached");
#endif
        } else if (c == "lb" || c == "ilb") {
#ifdef LIFE_NOOP
          out += c + "=skip";
#else
          // the symbol name is built at run time in a buffer the caller reuses for the next lookup
          int i = std::stoi(o[1]);
          auto impl = sb[i]->get_sandbox_impl();
          int before = impl->lookups;
          std::snprintf(g_namebuf, sizeof(g_namebuf), "f%s", o[2].c_str());
          void* a = (c == "lb") ? sb[i]->lookup_symbol(g_namebuf) : sb[i]->internal_lookup_symbol(g_namebuf);
          out += c + "=" + (impl->lookups > before ? "asked" : "cached") + ":" + std::to_string(reinterpret_cast<uintptr_t>(a) - 0x1000);
#endif
        } else if (c == "fa") {
#ifdef LIFE_NOOP
          out += c + "=skip";
#else
          // sandbox_function_address: the tainted function pointer holds the back end's address of the named function
          int i = std::stoi(o[1]), n = std::stoi(o[2]);
          auto impl = sb[i]->get_sandbox_impl();
          int before = impl->lookups;
          // (this driver is built with static calls for its own guest functions; what follows is the by-name expansion of the macro)
#  define LIFE_FA(f) sb[i]->template INTERNAL_get_sandbox_function_name<decltype(f)>(#f)
          rlbox::tainted<void (*)(), Sbx> p = n == 5 ? LIFE_FA(f5) : n == 6 ? LIFE_FA(f6) : LIFE_FA(f7);
          out += c + "=" + (impl->lookups > before ? "asked" : "cached") + ":" + std::to_string(reinterpret_cast<uintptr_t>(p.UNSAFE_unverified()) - 0x1000);
#endif
        } else if (c == "r" || c == "rx") {
          int j = std::stoi(o[1]), i = std::stoi(o[2]), k = std::stoi(o[3]);
          if (c == "rx") {
            // a registration whose abort is RECOVERABLE (RLBOX_USE_EXCEPTIONS): a refused registration must leave no trace,
            // the history goes on
            try { owners[j] = reg(*sb[i], k); }
            catch (const std::runtime_error& e) {
              if (std::strncmp(e.what(), "HARNESS", 7) == 0) throw;
              out += "rx=ABORT";
              continue;
            }
          } else
          owners[j] = reg(*sb[i], k);
          own_sb[j] = i;
          own_fn[j] = k;
#ifdef LIFE_NOOP
          out += c + "=ok";
#else
          out += c + "=" + std::to_string(owners[j].UNSAFE_sandboxed(*sb[i]) - Sbx::CB_BASE);
#endif
        } else if (c == "fill") {
          int i = std::stoi(o[1]), n = std::stoi(o[2]);
          fill_from<100>(*sb[i], extra, n);
          out += "fill=ok";
        } else if (c == "u") {
          int j = std::stoi(o[1]);
#ifdef LIFE_NOOP
          owners[j].unregister();
          out += "u=ok";
#else
          // whether the back end was asked to release the entry point (it must not be outside the created window)
          int before = own_sb[j] >= 0 ? sb[own_sb[j]]->get_sandbox_impl()->unregister_calls : 0;
          owners[j].unregister();
          int after = own_sb[j] >= 0 ? sb[own_sb[j]]->get_sandbox_impl()->unregister_calls : 0;
          out += std::string("u=ok:be") + (after > before ? "1" : "0");
#endif
#ifndef LIFE_NOOP
        } else if (c == "ur") {
          // release owner j while "another thread" tries to register the same function with the same sandbox at the moment
          // the back end is asked to release the entry point: that registration must be refused (the function is still registered)
          int j = std::stoi(o[1]);
          if (owners[j].is_unregistered() || own_sb[j] < 0 || !created[own_sb[j]]) { out += "ur=skip"; }
          else {
            g_ur_sb = sb[own_sb[j]].get(); g_ur_fn = own_fn[j]; g_ur_result = "none";
            rlbox::verif_backend_hook = ur_hook;
            try { owners[j].unregister(); } catch (...) { rlbox::verif_backend_hook = nullptr; throw; }
            rlbox::verif_backend_hook = nullptr;
            out += "ur=ok:nested=" + g_ur_result;
          }
#endif
        } else if (c == "mc") {
          int j = std::stoi(o[1]), j2 = std::stoi(o[2]);
          if (j == j2 || !owners[j].is_unregistered()) { out += "mc=skip"; }
          else {
            owners[j].~owner_t();
            new (&owners[j]) owner_t(std::move(owners[j2]));
            own_sb[j] = own_sb[j2];
            own_fn[j] = own_fn[j2];
            out += "mc=ok";
          }
        } else if (c == "ma") {
          int j = std::stoi(o[1]), j2 = std::stoi(o[2]);
          owners[j] = std::move(owners[j2]);
          if (j != j2) { own_sb[j] = own_sb[j2]; own_fn[j] = own_fn[j2]; }
          out += "ma=ok";
        } else if (c == "occ") {
          // how many entry points the back end of sandbox i has in use (they must be exactly the live registrations)
          int i = std::stoi(o[1]);
          auto impl = sb[i]->get_sandbox_impl();
          int n = 0;
          for (auto k : impl->callback_unique_keys) if (k != nullptr) n++;
          out += "occ=" + std::to_string(n);
        } else if (c == "q") {
          out += std::string("q=") + (owners[std::stoi(o[1])].is_unregistered() ? "1" : "0");
        } else if (c == "go") {
          // guest calls the entry point owner j holds (sandbox i must be the one it belongs to)
          int j = std::stoi(o[1]);
          g_ran = -1;
          sb[own_sb[j]]->invoke_sandbox_function(callcb, owners[j]);
          out += "go=" + std::to_string(g_ran);
        } else if (c == "gs") {
#ifdef LIFE_NOOP
          out += "gs=skip";
#else
          int i = std::stoi(o[1]);
          g_ran = -1;
          try {
            sb[i]->invoke_sandbox_function(callslot, (unsigned)std::stoul(o[2]));
            out += "gs=" + std::to_string(g_ran);
          } catch (const std::runtime_error& e) {
            if (std::strncmp(e.what(), "GUEST-TRAP", 10) == 0) out += "gs=dead"; else throw;
          }
#endif
        } else if (c == "x") {
#ifdef LIFE_NOOP
          out += "x=skip";
#else
          int i = std::stoi(o[1]);
          uintptr_t ex = slot_base_of(i) + std::stoul(o[2]);
          auto p = sandbox_t::get_unsandboxed_pointer_no_ctx<char*>(64, reinterpret_cast<const void*>(ex));
          // reported relative to the canonical base of object i, so that the outcome does not depend on the thread
          out += "x=" + std::to_string(reinterpret_cast<uintptr_t>(p) - slot_base_of(i) + ((uintptr_t(i) + 1) << 44));
#endif
        } else {
          out += "HARNESS-ERROR-" + c;
        }
      } catch (const std::runtime_error& e) {
        if (std::strncmp(e.what(), "HARNESS", 7) == 0) throw;
        out += c + "=ABORT";
        if (recover) continue;
        break;
      }
    }
    // the owners go out of scope here (their destructors unregister)
  }
  for (int i = 0; i < NSB; i++) {
    if (created[i]) { try { sb[i]->destroy_sandbox(); } catch (...) { out += ",CLEANUP-ABORT"; } }
  }
  return "SEQ " + out;
}

#ifndef LIFE_NO_MAIN
int main(int argc, char** argv) { return case_loop(argc, argv, run_case); }
#endif

// calls.cpp — call trees of nested invocations and callbacks (C12, C19, and the
// multi-instance / by-name part of C11) after a register/unregister history.
//   -DCALLS_VERIF32 : verif32 (guest long = int32), 3 instances bound to two libraries
//                     exporting the same names, by-name lookup, 4 callback slots
//   -DCALLS_WIDE    : verifwide (guest int = int64), same
//   -DCALLS_NOOP    : rlbox_noop_sandbox, static calls, 64 slots, per-slot trampolines
//                     [-DRLBOX_EMBEDDER_PROVIDES_TLS_STATIC_VARIABLES: embedder-provided TLS]
// Transition hooks and transition timing are both enabled; every hook call, every guest
// entry, every callback run and every value that crosses is logged.
#define RLBOX_USE_EXCEPTIONS
#define RLBOX_SINGLE_THREADED_INVOCATIONS
// Variants: -DCALLS_HOOKS_ONLY (no timing), -DCALLS_TIMING_ONLY (no hooks), -DCALLS_IN_ONLY / -DCALLS_OUT_ONLY (one hook + timing).
#ifndef CALLS_HOOKS_ONLY
#  define RLBOX_MEASURE_TRANSITION_TIMES
#endif
#include <string>
template<typename K>
void calls_hook(bool in, K kind, const char* name, const void* ptr, void*& state);
#if !defined(CALLS_TIMING_ONLY) && !defined(CALLS_OUT_ONLY)
#  define RLBOX_TRANSITION_ACTION_IN(kind, name, ptr, state) calls_hook(true, kind, name, ptr, state)
#endif
#if !defined(CALLS_TIMING_ONLY) && !defined(CALLS_IN_ONLY)
#  define RLBOX_TRANSITION_ACTION_OUT(kind, name, ptr, state) calls_hook(false, kind, name, ptr, state)
#endif

#ifdef CALLS_DYLIB
#  define private public
#  define protected public
#  include "rlbox_dylib_sandbox.hpp"
#  undef private
#  undef protected
#  include "rlbox.hpp"
using Sbx = rlbox::rlbox_dylib_sandbox;
#  ifdef RLBOX_EMBEDDER_PROVIDES_TLS_STATIC_VARIABLES
RLBOX_DYLIB_SANDBOX_STATIC_VARIABLES();
#  endif
using A = long;
using GA = long;
#elif defined(CALLS_NOOP)
#  define RLBOX_USE_STATIC_CALLS() calls_static_lookup
#  define calls_static_lookup(f) reinterpret_cast<void*>(&guest_##f)
#  define private public
#  define protected public
#  include "rlbox_noop_sandbox.hpp"
#  undef private
#  undef protected
#  include "rlbox.hpp"
using Sbx = rlbox::rlbox_noop_sandbox;
#  ifdef RLBOX_EMBEDDER_PROVIDES_TLS_STATIC_VARIABLES
RLBOX_NOOP_SANDBOX_STATIC_VARIABLES();
#  endif
using A = long;     // application type of the value parameter
using GA = long;    // what guest code sees
#else
#  include "rlbox.hpp"
#  include "verif_sandbox.hpp"
#  ifdef CALLS_WIDE
using Sbx = rlbox::rlbox_verifwide_sandbox;
using A = int;
using GA = int64_t;
#  else
using Sbx = rlbox::rlbox_verif32_sandbox;
using A = long;
using GA = int32_t;
#  endif
#endif
#include "common.hpp"
#include <memory>

using namespace vh;
using sandbox_t = rlbox::rlbox_sandbox<Sbx>;

constexpr int NSB = 3, NFN = 8;
static std::unique_ptr<sandbox_t> g_sb[NSB];

struct Node
{
  int tgt, fnid;
  long long arg, ret;
  bool throws, catches;
  std::vector<int> kids;
};
static std::vector<Node> g_nodes;
static std::string g_log;
static void logev(const std::string& s)
{
  if (!g_log.empty()) g_log += " ";
  g_log += s;
}

static int sb_index_of(const void* impl_or_sandbox)
{
  for (int i = 0; i < NSB; i++) {
    if (g_sb[i] && (static_cast<const void*>(g_sb[i].get()) == impl_or_sandbox ||
                    static_cast<const void*>(g_sb[i]->get_sandbox_impl()) == impl_or_sandbox))
      return i;
  }
  return -1;
}

static int current_guest_sandbox()
{
#ifdef CALLS_DYLIB
#  ifdef RLBOX_EMBEDDER_PROVIDES_TLS_STATIC_VARIABLES
  return sb_index_of(rlbox::get_rlbox_dylib_sandbox_thread_data()->sandbox);
#  else
  return sb_index_of(Sbx::thread_data.sandbox);
#  endif
#elif defined(CALLS_NOOP)
#  ifdef RLBOX_EMBEDDER_PROVIDES_TLS_STATIC_VARIABLES
  return sb_index_of(rlbox::get_rlbox_noop_sandbox_thread_data()->sandbox);
#  else
  return sb_index_of(Sbx::thread_data.sandbox);
#  endif
#else
  return sb_index_of(rlbox::verif_tls.sandbox);
#endif
}

// ---- application callbacks: F even returns tainted<A>, F odd returns void ----
static void* g_cb_key[NFN];      // the registration key (function address) of callback F
static int fn_of_key(const void* k)
{
  for (int f = 0; f < NFN; f++) if (g_cb_key[f] == k) return f;
  return -1;
}

#ifdef CALLS_NOOP
static GA guest_g0(GA idx, GA v);
static void guest_g1(GA idx, GA v);
#endif
long g0(long, long);   // prototypes only (application ABI); bodies are the guest functions below
void g1(long, long);
int w0(int, int);
void w1(int, int);

static void cb_body(int F, sandbox_t& s, A idx, A v)
{
  int me = sb_index_of(&s);
  logev("R:" + std::to_string(F) + ":" + std::to_string(me) + ":" + std::to_string((long long)v));
  const Node& n = g_nodes.at(size_t(idx));
  for (int k : n.kids) {
    const Node& kid = g_nodes[size_t(k)];
    auto doit = [&] {
      sandbox_t& t = *g_sb[kid.tgt];
#if defined(CALLS_WIDE)
      if (kid.fnid % 2 == 0) {
        auto r = t.invoke_sandbox_function(w0, (A)k, (A)kid.arg);
        logev("IR:" + std::to_string(kid.tgt) + ":" + std::to_string((long long)r.UNSAFE_unverified()));
      } else {
        t.invoke_sandbox_function(w1, (A)k, (A)kid.arg);
        logev("IR:" + std::to_string(kid.tgt) + ":v");
      }
#else
      if (kid.fnid % 2 == 0) {
        auto r = t.invoke_sandbox_function(g0, (A)k, (A)kid.arg);
        logev("IR:" + std::to_string(kid.tgt) + ":" + std::to_string((long long)r.UNSAFE_unverified()));
      } else {
        t.invoke_sandbox_function(g1, (A)k, (A)kid.arg);
        logev("IR:" + std::to_string(kid.tgt) + ":v");
      }
#endif
    };
    if (n.catches) {
      try { doit(); } catch (const std::runtime_error& e) {
        if (std::strncmp(e.what(), "HARNESS", 7) == 0) throw;
      }
    } else {
      doit();
    }
  }
  if (n.throws) throw std::runtime_error("BODY throws");
}
template<int F>
static rlbox::tainted<A, Sbx> cbr(sandbox_t& s, rlbox::tainted<A, Sbx> idx, rlbox::tainted<A, Sbx> v)
{
  A i = idx.UNSAFE_unverified();
  cb_body(F, s, i, v.UNSAFE_unverified());
  return (A)g_nodes.at(size_t(i)).ret;
}
template<int F>
static void cbv(sandbox_t& s, rlbox::tainted<A, Sbx> idx, rlbox::tainted<A, Sbx> v)
{
  cb_body(F, s, idx.UNSAFE_unverified(), v.UNSAFE_unverified());
}
using owner_r = rlbox::sandbox_callback<A (*)(A, A), Sbx>;
using owner_v = rlbox::sandbox_callback<void (*)(A, A), Sbx>;

// ---- guest side ----
// per sandbox and slot: what the guest was told is there (entry value + signature)
#if defined(CALLS_NOOP) || defined(CALLS_DYLIB)
#  define CALLS_HOST_TRAMPOLINES
#endif
struct Entry
{
  bool issued = false;
  bool is_void = false;
#ifdef CALLS_HOST_TRAMPOLINES
  void* tramp = nullptr;
#endif
};
static Entry g_entry[NSB][64];

static bool slot_live(int sb, int slot)
{
  auto impl = g_sb[sb]->get_sandbox_impl();
  return slot >= 0 && slot < int(Sbx::MAX_CALLBACKS) && impl->callbacks[slot] != nullptr;
}

template<int LIB, bool VOID>
static GA guest_body(int fnid, GA idx, GA v)
{
  int me = current_guest_sandbox();
  logev("G:" + std::to_string(me) + ":" + std::to_string(fnid) + ":" + std::to_string(LIB) + ":" + std::to_string((long long)v));
  const Node& n = g_nodes.at(size_t(idx));
  for (int k : n.kids) {
    const Node& kid = g_nodes[size_t(k)];
    int slot = kid.tgt;
    if (!slot_live(me, slot)) {
      logev("X:" + std::to_string(me) + ":" + std::to_string(slot));
      throw std::runtime_error("GUEST-TRAP: dead entry point");
    }
    bool isv = g_entry[me][slot].is_void;
#ifdef CALLS_HOST_TRAMPOLINES
    void* tr = g_entry[me][slot].tramp;
    if (isv) {
      reinterpret_cast<void (*)(GA, GA)>(tr)((GA)k, (GA)kid.arg);
      logev("GG:" + std::to_string(me) + ":v");
    } else {
      GA r = reinterpret_cast<GA (*)(GA, GA)>(tr)((GA)k, (GA)kid.arg);
      logev("GG:" + std::to_string(me) + ":" + std::to_string((long long)r));
    }
#else
    auto rep = static_cast<Sbx::T_PointerType>(Sbx::CB_BASE + uint32_t(slot));
    if (isv) {
      Sbx::guest_call_callback<void, GA, GA>(rep, (GA)k, (GA)kid.arg);
      logev("GG:" + std::to_string(me) + ":v");
    } else {
      GA r = Sbx::guest_call_callback<GA, GA, GA>(rep, (GA)k, (GA)kid.arg);
      logev("GG:" + std::to_string(me) + ":" + std::to_string((long long)r));
    }
#endif
  }
  return (GA)n.ret;
}
template<int LIB> static GA lib_g0(GA idx, GA v) { return guest_body<LIB, false>(0, idx, v); }
template<int LIB> static void lib_g1(GA idx, GA v) { guest_body<LIB, true>(1, idx, v); }
#ifdef CALLS_DYLIB
// called by the functions of the shared libraries (calls_guestlib.cpp)
extern "C" long calls_guest_body(int lib, int fnid, long idx, long v)
{
  if (lib == 0) return fnid == 0 ? guest_body<0, false>(0, idx, v) : guest_body<0, true>(1, idx, v);
  return fnid == 0 ? guest_body<1, false>(0, idx, v) : guest_body<1, true>(1, idx, v);
}
#elif defined(CALLS_NOOP)
static GA guest_g0(GA idx, GA v) { return lib_g0<0>(idx, v); }
static void guest_g1(GA idx, GA v) { lib_g1<0>(idx, v); }
#else
static const rlbox::verif_lib g_lib0 = {
  { "g0", (void*)&lib_g0<0> }, { "g1", (void*)&lib_g1<0> }, { "w0", (void*)&lib_g0<0> }, { "w1", (void*)&lib_g1<0> } };
static const rlbox::verif_lib g_lib1 = {
  { "g0", (void*)&lib_g0<1> }, { "g1", (void*)&lib_g1<1> }, { "w0", (void*)&lib_g0<1> }, { "w1", (void*)&lib_g1<1> } };
#endif

// ---- hooks ----
template<typename K>
void calls_hook(bool in, K kind, const char* name, const void* ptr, void*& state)
{
  bool is_invoke = (kind == rlbox::rlbox_transition::INVOKE);
  long st = long(reinterpret_cast<uintptr_t>(state)) - 100;
  std::string ident;
  if (is_invoke) {
    ident = (name && (name[0] == 'g' || name[0] == 'w') && name[1] && !name[2]) ? std::string(1, name[1]) : std::string("?");
  } else {
    ident = std::to_string(fn_of_key(ptr));
    if (name != nullptr) ident += "!name";
  }
  logev(std::string(in ? "I:" : "O:") + (is_invoke ? "i:" : "c:") + ident + ":" + std::to_string(st));
  // the hook is handed the per-sandbox state itself (the macro argument is the member): it advances it, so that the
  // next notification of the same sandbox must observe the advanced value
  state = reinterpret_cast<void*>(reinterpret_cast<uintptr_t>(state) + 1000);
}

// ---- registration ----
static owner_r g_own_r[NSB][NFN];
static owner_v g_own_v[NSB][NFN];

template<int F>
static void do_register(int s)
{
  sandbox_t& sb = *g_sb[s];
  void* key;
  if constexpr (F % 2 == 0) {
    g_own_r[s][F] = sb.register_callback(cbr<F>);
    key = reinterpret_cast<void*>(&cbr<F>);
  } else {
    g_own_v[s][F] = sb.register_callback(cbv<F>);
    key = reinterpret_cast<void*>(&cbv<F>);
  }
  g_cb_key[F] = key;
  auto impl = sb.get_sandbox_impl();
  for (uint32_t i = 0; i < Sbx::MAX_CALLBACKS; i++) {
    if (impl->callback_unique_keys[i] == key) {
      g_entry[s][i].issued = true;
      g_entry[s][i].is_void = (F % 2 == 1);
#ifdef CALLS_HOST_TRAMPOLINES
      if constexpr (F % 2 == 0) g_entry[s][i].tramp = g_own_r[s][F].UNSAFE_sandboxed(sb);
      else g_entry[s][i].tramp = g_own_v[s][F].UNSAFE_sandboxed(sb);
#endif
    }
  }
}
static void reg(int s, int f)
{
  switch (f) {
#define R(K) case K: do_register<K>(s); return;
    R(0) R(1) R(2) R(3) R(4) R(5) R(6) R(7)
#undef R
    default: throw std::runtime_error("HARNESS bad function id");
  }
}

static int parse_tree(const toks_t& t, size_t& pos)
{
  if (pos + 8 > t.size() || t[pos] != "N") throw std::runtime_error("HARNESS bad tree");
  Node n;
  n.tgt = std::stoi(t[pos + 1]);
  n.fnid = std::stoi(t[pos + 2]);
  n.arg = std::stoll(t[pos + 3]);
  n.ret = std::stoll(t[pos + 4]);
  n.throws = t[pos + 5] == "1";
  n.catches = t[pos + 6] == "1";
  int nk = std::stoi(t[pos + 7]);
  pos += 8;
  int me = int(g_nodes.size());
  g_nodes.push_back(n);
  for (int i = 0; i < nk; i++) {
    int k = parse_tree(t, pos);
    g_nodes[size_t(me)].kids.push_back(k);
  }
  return me;
}

static std::string run_case(const toks_t& t)
{
  g_nodes.clear();
  g_log.clear();
  for (auto& row : g_entry) for (auto& e : row) e = Entry{};
  for (int i = 0; i < NSB; i++) {
    g_sb[i] = std::make_unique<sandbox_t>();
#ifdef CALLS_DYLIB
    {
      const char* dir = std::getenv("VERIF_LIBDIR");
      std::string path = std::string(dir ? dir : ".") + "/libcalls" + std::to_string(i % 2) + ".so";
      g_sb[i]->create_sandbox(path.c_str());
    }
#elif defined(CALLS_NOOP)
    g_sb[i]->create_sandbox();
#else
    g_sb[i]->create_sandbox(i % 2 == 0 ? &g_lib0 : &g_lib1, false);
#endif
    g_sb[i]->set_transition_state(reinterpret_cast<void*>(uintptr_t(100 + i)));
  }
  std::string out;
  bool aborted = false, prefix_abort = false;
  size_t pos = 1;
  try {
    for (; pos < t.size() && t[pos] != "|"; pos++) {
      toks_t o = split(t[pos], ':');
      int s = std::stoi(o[1]), f = std::stoi(o[2]);
      if (o[0] == "r") reg(s, f);
      else if (o[0] == "u") { if (f % 2 == 0) g_own_r[s][f].unregister(); else g_own_v[s][f].unregister(); }
      else throw std::runtime_error("HARNESS bad prefix op");
    }
  } catch (const std::runtime_error& e) {
    if (std::strncmp(e.what(), "HARNESS", 7) == 0) throw;
    prefix_abort = true;
  }
  if (prefix_abort) {
    out = "PREFIX-ABORT";
  } else {
    pos++;
    int root = parse_tree(t, pos);
    const Node& rn = g_nodes[size_t(root)];
    try {
      sandbox_t& sb = *g_sb[rn.tgt];
#ifdef CALLS_WIDE
      if (rn.fnid % 2 == 0) {
        auto r = sb.invoke_sandbox_function(w0, (A)root, (A)rn.arg);
        logev("IR:" + std::to_string(rn.tgt) + ":" + std::to_string((long long)r.UNSAFE_unverified()));
      } else {
        sb.invoke_sandbox_function(w1, (A)root, (A)rn.arg);
        logev("IR:" + std::to_string(rn.tgt) + ":v");
      }
#else
      if (rn.fnid % 2 == 0) {
        auto r = sb.invoke_sandbox_function(g0, (A)root, (A)rn.arg);
        logev("IR:" + std::to_string(rn.tgt) + ":" + std::to_string((long long)r.UNSAFE_unverified()));
      } else {
        sb.invoke_sandbox_function(g1, (A)root, (A)rn.arg);
        logev("IR:" + std::to_string(rn.tgt) + ":v");
      }
#endif
    } catch (const std::runtime_error& e) {
      if (std::strncmp(e.what(), "HARNESS", 7) == 0) throw;
      aborted = true;
    }
    out = g_log + " | ab=" + (aborted ? "1" : "0") + " cur=" + (current_guest_sandbox() == -1 ? "ok" : "BAD") + " |";
#ifdef RLBOX_MEASURE_TRANSITION_TIMES
    for (int i = 0; i < NSB; i++) {
      out += " T" + std::to_string(i) + "=";
      bool first = true;
      for (auto& r : g_sb[i]->process_and_get_transition_times()) {
        if (!first) out += ",";
        first = false;
        if (r.invoke == rlbox::rlbox_transition::INVOKE) {
          out += std::string("i:") + (r.name ? std::string(1, r.name[1]) : "?");
        } else {
          out += "c:" + std::to_string(fn_of_key(r.ptr));
        }
      }
    }
#else
    out += " notiming";
#endif
  }
  for (int s = 0; s < NSB; s++) for (int f = 0; f < NFN; f++) {
    try { g_own_r[s][f].unregister(); g_own_v[s][f].unregister(); } catch (...) { out += " CLEANUP-ABORT"; }
  }
  for (int i = 0; i < NSB; i++) {
    try { g_sb[i]->destroy_sandbox(); } catch (...) { out += " CLEANUP-ABORT"; }
    g_sb[i].reset();
  }
  return out;
}

int main(int argc, char** argv) { return case_loop(argc, argv, run_case); }

// calls_guestlib.cpp — a real shared library for rlbox_dylib_sandbox (built twice, -DLIB=0 and -DLIB=1: two
// libraries exporting the same names).  The bodies live in the driver executable (linked with -rdynamic).
// Each library identifies itself through an EXPORTED helper (g0) / an exported global (g1) of its own, as real libraries
// do: were the libraries loaded into one symbol scope, the second one's references would bind to the first one's.
extern "C" long calls_guest_body(int lib, int fnid, long idx, long v);
extern "C" { int calls_lib_tag = LIB; }
extern "C" int calls_lib_id() { return LIB; }
extern "C" long g0(long idx, long v) { return calls_guest_body(calls_lib_id(), 0, idx, v); }
extern "C" void g1(long idx, long v) { calls_guest_body(calls_lib_tag, 1, idx, v); }

// calls_guestlib.cpp — a real shared library for rlbox_dylib_sandbox (built twice, -DLIB=0 and -DLIB=1: two
// libraries exporting the same names).  The bodies live in the driver executable (linked with -rdynamic).
extern "C" long calls_guest_body(int lib, int fnid, long idx, long v);
extern "C" long g0(long idx, long v) { return calls_guest_body(LIB, 0, idx, v); }
extern "C" void g1(long idx, long v) { calls_guest_body(LIB, 1, idx, v); }

// mem.cpp — byte-level observation of stores and loads through tainted references (C07).
// -DVERIF_CFG=verif_cfg32 | verif_cfg16 | verif_cfgwide
//   st  <kind> <off> <val> <seed>              store through *p, report the bytes around off and
//                                              whether any byte elsewhere in committed memory changed
//   ld  <variant> <kind> <off> <seed> <count|idx> [hexbytes]   load through the named path
//   sta <kind> <6|2x3> <off> <seed> v0..v5       whole-array store  *p = tainted<T[6]> / tainted<T[2][3]>: the bytes of the guest image
//   lda <tain|unv> <kind> <6|2x3> <off> <seed> <hexbytes>   whole-array load (tainted<T[..]> x = *p / (*p).UNSAFE_unverified())
// kinds: the integer kinds, enum, float, double, ptr (cell of type int*; value = target offset, 0 = null)
#define RLBOX_USE_EXCEPTIONS
#define RLBOX_SINGLE_THREADED_INVOCATIONS
#include "rlbox.hpp"
#include "verif_sandbox.hpp"
#include "common.hpp"
#include <memory>

using namespace vh;
using Cfg = rlbox::VERIF_CFG;
using Sbx = rlbox::rlbox_verif_sandbox<Cfg>;
using sandbox_t = rlbox::rlbox_sandbox<Sbx>;
template<typename T> using tainted = rlbox::tainted<T, Sbx>;

enum En : unsigned int { EN_A = 0, EN_BIG = 0xfffffff0u };

static std::unique_ptr<sandbox_t> g_sb;
static uintptr_t g_base;
constexpr uint64_t RSIZE = Cfg::region_size;
constexpr uint64_t COMMITTED = Cfg::committed;
constexpr uint64_t PAGE = 4096;

static inline uint8_t pat(uint64_t off, uint64_t seed) { return uint8_t(off * 131 + seed * 17 + 0x5a); }
static bool committed_off(uint64_t off) { return off < COMMITTED || (off >= RSIZE - PAGE && off < RSIZE); }

static void fill(uint64_t seed)
{
  auto* b = reinterpret_cast<uint8_t*>(g_base);
  for (uint64_t i = 0; i < COMMITTED; i++) b[i] = pat(i, seed);
  for (uint64_t i = RSIZE - PAGE; i < RSIZE; i++) b[i] = pat(i, seed);
}
static void window(uint64_t off, uint64_t& lo, uint64_t& hi)
{
  uint64_t lb = off < COMMITTED ? 0 : RSIZE - PAGE;
  uint64_t ub = off < COMMITTED ? COMMITTED : RSIZE;
  lo = off >= lb + 16 ? off - 16 : lb;
  hi = off + 24 <= ub ? off + 24 : ub;
}
static std::string observe(uint64_t off, uint64_t seed)
{
  auto* b = reinterpret_cast<uint8_t*>(g_base);
  uint64_t lo, hi;
  window(off, lo, hi);
  std::string out = "W ";
  static const char* hx = "0123456789abcdef";
  for (uint64_t i = lo; i < hi; i++) { out += hx[b[i] >> 4]; out += hx[b[i] & 15]; }
  std::string dirty;
  auto scan = [&](uint64_t from, uint64_t to) {
    for (uint64_t i = from; i < to && dirty.empty(); i++) {
      if (i >= lo && i < hi) continue;
      if (b[i] != pat(i, seed)) dirty = "DIRTY@" + std::to_string(i);
    }
  };
  scan(0, COMMITTED);
  scan(RSIZE - PAGE, RSIZE);
  return out + " outside=" + (dirty.empty() ? "clean" : dirty);
}

template<typename T>
static tainted<T*> ptr_at(uint64_t off)
{
  return g_sb->UNSAFE_accept_pointer(reinterpret_cast<T*>(g_base + off));
}

template<typename T>
static std::string show_v(T v)
{
  if constexpr (std::is_same_v<T, float>) { uint32_t b; std::memcpy(&b, &v, 4); return std::to_string(b); }
  else if constexpr (std::is_same_v<T, double>) { uint64_t b; std::memcpy(&b, &v, 8); return std::to_string(b); }
  else if constexpr (std::is_same_v<T, long double>) {
    // the 10 value bytes as a decimal number
    unsigned __int128 b = 0; std::memcpy(&b, &v, 10);
    if (b == 0) return "0";
    std::string s; while (b != 0) { s.insert(s.begin(), char('0' + int(b % 10))); b /= 10; }
    return s;
  }
  else if constexpr (std::is_enum_v<T>) return std::to_string(static_cast<unsigned long long>(v));
  else if constexpr (std::is_pointer_v<T>) return std::to_string(reinterpret_cast<uintptr_t>(v));
  else return show_int(v);
}
template<typename T>
static T parse_v(const std::string& s)
{
  if constexpr (std::is_same_v<T, float>) { uint32_t b = uint32_t(parse_u64(s)); float f; std::memcpy(&f, &b, 4); return f; }
  else if constexpr (std::is_same_v<T, double>) { uint64_t b = parse_u64(s); double f; std::memcpy(&f, &b, 8); return f; }
  else if constexpr (std::is_same_v<T, long double>) {
    unsigned __int128 b = 0; for (char ch : s) b = b * 10 + unsigned(ch - '0');
    long double f = 0; std::memcpy(&f, &b, 10); return f;
  }
  else if constexpr (std::is_enum_v<T>) return static_cast<T>(parse_u64(s));
  else return parse_int<T>(s);
}

template<typename F>
static bool with_any_kind(const std::string& k, F&& f)
{
  if (with_kind(k, f)) return true;
  if (k == "enum") { f(tag<En>{}); return true; }
  if (k == "float") { f(tag<float>{}); return true; }
  if (k == "double") { f(tag<double>{}); return true; }
  if (k == "ldouble") { f(tag<long double>{}); return true; }
  return false;
}

// the bytes [off, off+len) and whether any other committed byte changed
static std::string observe_range(uint64_t off, uint64_t len, uint64_t seed)
{
  auto* b = reinterpret_cast<uint8_t*>(g_base);
  static const char* hx = "0123456789abcdef";
  std::string out = "W ";
  for (uint64_t i = off; i < off + len; i++) { out += hx[b[i] >> 4]; out += hx[b[i] & 15]; }
  std::string dirty;
  for (uint64_t i = 0; i < COMMITTED && dirty.empty(); i++) {
    if (i >= off && i < off + len) continue;
    if (b[i] != pat(i, seed)) dirty = "DIRTY@" + std::to_string(i);
  }
  return out + " outside=" + (dirty.empty() ? "clean" : dirty);
}
template<typename T, bool TwoD>
static std::string whole_array(bool store, const std::string& variant, uint64_t off, uint64_t seed, const toks_t& t, size_t first)
{
  using A = std::conditional_t<TwoD, T[2][3], T[6]>;
  auto p = g_sb->UNSAFE_accept_pointer(reinterpret_cast<A*>(g_base + off));
  const uint64_t glen = 6 * sizeof(rlbox::tainted_volatile<T, Sbx>);
  if (store) {
    tainted<A> x;
    for (int i = 0; i < 6; i++) {
      if constexpr (TwoD) x[i / 3][i % 3] = parse_v<T>(t.at(first + i)); else x[i] = parse_v<T>(t.at(first + i));
    }
    *p = x;
    return observe_range(off, glen, seed);
  }
  std::string s = "V ";
  if (variant == "tain") {
    tainted<A> x = *p;
    for (int i = 0; i < 6; i++) {
      if (i) s += ",";
      if constexpr (TwoD) s += show_v(x[i / 3][i % 3].UNSAFE_unverified()); else s += show_v(x[i].UNSAFE_unverified());
    }
  } else {
    auto u = (*p).UNSAFE_unverified();
    for (int i = 0; i < 6; i++) {
      if (i) s += ",";
      if constexpr (TwoD) s += show_v(u[i / 3][i % 3]); else s += show_v(u[i]);
    }
  }
  return s;
}

static std::string run_case(const toks_t& t)
{
  const std::string& op = t.at(0);
  std::string out = "HARNESS-ERROR";
  if (op.rfind("sta", 0) == 0 || op.rfind("lda", 0) == 0) {
    bool store = op.rfind("sta", 0) == 0;
    size_t k0 = store ? 1 : 2;
    const std::string& kind = t.at(k0);
    bool twod = t.at(k0 + 1) == "2x3";
    uint64_t off = parse_u64(t.at(k0 + 2)), seed = parse_u64(t.at(k0 + 3));
    fill(seed);
    if (!store) {
      auto* b = reinterpret_cast<uint8_t*>(g_base);
      const std::string& h = t.at(k0 + 4);
      for (size_t i = 0; i + 1 < h.size(); i += 2) b[off + i / 2] = uint8_t(std::stoul(h.substr(i, 2), nullptr, 16));
    }
    bool ok = with_any_kind(kind, [&](auto tg) {
      using T = typename decltype(tg)::type;
      if constexpr (std::is_same_v<T, wchar_t> || std::is_same_v<T, bool>) { out = "NOCOMPILE"; }
      else out = twod ? whole_array<T, true>(store, store ? "" : t.at(1), off, seed, t, k0 + 4) : whole_array<T, false>(store, store ? "" : t.at(1), off, seed, t, k0 + 4);
    });
    return ok ? out : "HARNESS-ERROR kind";
  }
  if (op.rfind("st", 0) == 0) {
    const std::string& kind = t.at(1);
    uint64_t off = parse_u64(t.at(2));
    uint64_t seed = parse_u64(t.at(4));
    if (!committed_off(off)) return "HARNESS-ERROR uncommitted";
    fill(seed);
    if (kind == "ptr") {
      uint64_t tgt = parse_u64(t.at(3));
      tainted<int*> v = nullptr;
      if (tgt != 0) v = ptr_at<int>(tgt);
      auto pp = ptr_at<int*>(off);
      *pp = v;
      return observe(off, seed);
    }
    if (kind == "fnp") {
      // a tainted FUNCTION pointer (entry k of the sandbox's function table, 0 = null) stored through *p: the cell must
      // receive the function-pointer representation k.  The tainted value is obtained by loading representation k from a
      // scratch cell at the start of memory.
      using fn_t = void (*)();
      uint64_t k = parse_u64(t.at(3));
      auto scratch = ptr_at<fn_t>(64 * 1024 - 64 < COMMITTED ? 64 * 1024 - 64 : 1024);
      auto* b = reinterpret_cast<uint8_t*>(g_base);
      uint64_t so = reinterpret_cast<uintptr_t>(scratch.UNSAFE_unverified()) - g_base;
      typename Cfg::rep_t rep = static_cast<typename Cfg::rep_t>(k);
      std::memcpy(b + so, &rep, sizeof(rep));
      tainted<fn_t> f = *scratch;
      for (size_t i = 0; i < sizeof(rep); i++) b[so + i] = pat(so + i, seed);     // restore the pattern
      auto pp = ptr_at<fn_t>(off);
      *pp = f;
      return observe(off, seed);
    }
    bool ok = with_any_kind(kind, [&](auto tg) {
      using T = typename decltype(tg)::type;
      if constexpr (std::is_same_v<T, wchar_t>) { out = "NOCOMPILE"; }
      else {
        auto p = ptr_at<T>(off);
        *p = parse_v<T>(t.at(3));
        out = observe(off, seed);
      }
    });
    return ok ? out : "HARNESS-ERROR kind";
  }
  if (op.rfind("ld", 0) == 0) {
    const std::string& variant = t.at(1);
    const std::string& kind = t.at(2);
    uint64_t off = parse_u64(t.at(3));
    uint64_t seed = parse_u64(t.at(4));
    uint64_t n = parse_u64(t.at(5));
    if (!committed_off(off)) return "HARNESS-ERROR uncommitted";
    fill(seed);
    if (t.size() > 6) {
      auto* b = reinterpret_cast<uint8_t*>(g_base);
      const std::string& h = t[6];
      for (size_t i = 0; i + 1 < h.size(); i += 2) b[off + i / 2] = uint8_t(std::stoul(h.substr(i, 2), nullptr, 16));
    }
    if (kind == "ptr") {
      auto pp = ptr_at<int*>(off);
      if (variant == "deref") return "V " + show_v((*pp).UNSAFE_unverified());
      if (variant == "tain") { tainted<int*> x = *pp; return "V " + show_v(x.UNSAFE_unverified()); }
      if (variant == "idx") return "V " + show_v(pp[n].UNSAFE_unverified());
      return "HARNESS-ERROR variant";
    }
    bool ok = with_any_kind(kind, [&](auto tg) {
      using T = typename decltype(tg)::type;
      if constexpr (std::is_same_v<T, wchar_t>) { out = "NOCOMPILE"; }
      else {
        auto p = ptr_at<T>(off);
        if (variant == "deref") out = "V " + show_v((*p).UNSAFE_unverified());
        else if (variant == "tain") { tainted<T> x = *p; out = "V " + show_v(x.UNSAFE_unverified()); }
        else if (variant == "cvv") out = "V " + show_v((*p).copy_and_verify([](T v) { return v; }));
        else if (variant == "idx") out = "V " + show_v(p[n].UNSAFE_unverified());
        else if (variant == "cvp") out = "V " + show_v(p.copy_and_verify([](std::unique_ptr<T> v) { return *v; }));
        else if (variant == "cvr") {
          std::string s = "V ";
          p.copy_and_verify_range([&](std::unique_ptr<T[]> v) {
            for (uint64_t i = 0; i < n; i++) { if (i) s += ","; s += show_v(v[i]); }
            return 0;
          }, n);
          out = s;
        }
        else out = "HARNESS-ERROR variant";
      }
    });
    return ok ? out : "HARNESS-ERROR kind";
  }
  return out;
}

int main(int argc, char** argv)
{
  g_sb = std::make_unique<sandbox_t>();
  Sbx::fixed_base_hint = uintptr_t(1) << 44;
  g_sb->create_sandbox(nullptr, false);
  g_base = g_sb->get_sandbox_impl()->region_base();
  // three entries of the sandbox's function table (representations 1..3) for the function-pointer stores
  static void (*const fns[3])() = { [] {}, [] {}, [] {} };
  for (auto f : fns) g_sb->get_sandbox_impl()->function_table.push_back(reinterpret_cast<const void*>(f));
  return case_loop(argc, argv, run_case);
}

// cbk.cpp — one guest call of a registered callback per case, over parameter / result KINDS (C12):
// the tree driver (calls.cpp) passes one integer type only; here the callback's parameter or result is a
// data pointer (null, first bytes, far end of the sandbox), a const pointer, or an integer of every width
// and signedness, so that the interceptor's conversion of each kind is compared with the model.
//   -DVERIF_CFG=verif_cfg32|verif_cfg16|verif_cfg64|verif_cfgwide : harness back ends (real memory range)
//   -DCBK_NOOP                                                     : rlbox_noop_sandbox (host ABI)
//   cbk<cfg> p <kind> <guest value>   guest calls the entry point with this value; prints what the function saw
//   cbk<cfg> r <kind> <app value>     the function returns this value; prints what guest code got back
#define RLBOX_USE_EXCEPTIONS
#define RLBOX_SINGLE_THREADED_INVOCATIONS
#ifdef CBK_NOOP
#  define RLBOX_USE_STATIC_CALLS() cbk_static_lookup
#  define cbk_static_lookup(f) nullptr
#  define private public
#  define protected public
#  include "rlbox_noop_sandbox.hpp"
#  undef private
#  undef protected
#  include "rlbox.hpp"
using Sbx = rlbox::rlbox_noop_sandbox;
#else
#  include "rlbox.hpp"
#  include "verif_sandbox.hpp"
using Sbx = rlbox::rlbox_verif_sandbox<rlbox::VERIF_CFG>;
#endif
#include "common.hpp"
#include <memory>

using namespace vh;
using sandbox_t = rlbox::rlbox_sandbox<Sbx>;
template<typename T> using tainted_v = rlbox::tainted<T, Sbx>;
template<typename T> using guest_t = rlbox::detail::convert_to_sandbox_equivalent_t<T, Sbx>;

static std::unique_ptr<sandbox_t> g_sb;
static std::string g_seen;
static long long g_retv = 0;
static unsigned g_runs = 0;
#ifdef CBK_NOOP
static char g_buf[1 << 16];
static uintptr_t base_addr() { return reinterpret_cast<uintptr_t>(g_buf); }
#else
static uintptr_t base_addr() { return reinterpret_cast<uintptr_t>(g_sb->get_memory_location()); }
#endif

template<typename T>
static std::string show(tainted_v<T> v)
{
  if constexpr (std::is_pointer_v<T>) {
    auto p = v.UNSAFE_unverified();
    if (p == nullptr) return "null";
    return "off=" + std::to_string(reinterpret_cast<uintptr_t>(p) - base_addr());
  } else if constexpr (std::is_signed_v<T>) {
    return std::to_string((long long)v.UNSAFE_unverified());
  } else {
    return std::to_string((unsigned long long)v.UNSAFE_unverified());
  }
}

template<typename T>
static void cb_param(sandbox_t& s, tainted_v<T> v)
{
  g_runs++;
  g_seen = std::string(&s == g_sb.get() ? "" : "WRONG-SANDBOX ") + show<T>(v);
}

template<typename T>
static tainted_v<T> cb_ret(sandbox_t& s)
{
  g_runs++;
  if constexpr (std::is_pointer_v<T>) {
    tainted_v<T> r = nullptr;
    if (g_retv != 0) r.assign_raw_pointer(s, reinterpret_cast<T>(base_addr() + uintptr_t(g_retv)));
    return r;
  } else {
    return tainted_v<T>(static_cast<T>(g_retv));
  }
}

// what guest code does: call through the entry point value it was given
template<typename T_Ret, typename T_Cb, typename... T_Args>
static T_Ret guest_call(T_Cb& cb, T_Args... args)
{
  auto impl = g_sb->get_sandbox_impl();
#ifdef CBK_NOOP
  auto old = Sbx::thread_data.sandbox;
  Sbx::thread_data.sandbox = impl;           // what impl_invoke_with_func_ptr does for the duration of a guest function
  auto restore = rlbox::detail::make_scope_exit([&] { Sbx::thread_data.sandbox = old; });
  auto tramp = reinterpret_cast<T_Ret (*)(T_Args...)>(cb.UNSAFE_sandboxed(*g_sb));
  return tramp(args...);
#else
  auto old = rlbox::verif_tls.sandbox;
  rlbox::verif_tls.sandbox = impl;
  auto restore = rlbox::detail::make_scope_exit([&] { rlbox::verif_tls.sandbox = old; });
  return Sbx::template guest_call_callback<T_Ret, T_Args...>(cb.UNSAFE_sandboxed(*g_sb), args...);
#endif
}

template<typename T>
static guest_t<T> guest_value(const std::string& s)
{
  using G = guest_t<T>;
  if constexpr (std::is_pointer_v<T>) {
    unsigned long long off = parse_u64(s);
#ifdef CBK_NOOP
    return off == 0 ? G(nullptr) : reinterpret_cast<G>(base_addr() + off);
#else
    return static_cast<G>(off);
#endif
  } else if constexpr (std::is_signed_v<G>) {
    return static_cast<G>(std::stoll(s));
  } else {
    return static_cast<G>(parse_u64(s));
  }
}

template<typename T>
static std::string show_guest(guest_t<T> g)
{
  using G = guest_t<T>;
  if constexpr (std::is_pointer_v<G>) {
    if (g == nullptr) return "0";
    return std::to_string(reinterpret_cast<uintptr_t>(g) - base_addr());
  } else if constexpr (std::is_pointer_v<T>) {
    return std::to_string((unsigned long long)g);
  } else if constexpr (std::is_signed_v<G>) {
    return std::to_string((long long)g);
  } else {
    return std::to_string((unsigned long long)g);
  }
}

template<typename T>
static std::string one(const std::string& dir, const std::string& val)
{
  g_seen.clear();
  g_runs = 0;
  std::string out;
  try {
    if (dir == "p") {
      auto cb = g_sb->register_callback(cb_param<T>);
      auto restore = rlbox::detail::make_scope_exit([&] { cb.unregister(); });
      guest_call<void>(cb, guest_value<T>(val));
      out = "R:" + g_seen + " runs=" + std::to_string(g_runs);
    } else {
      g_retv = val[0] == '-' ? std::stoll(val) : (long long)parse_u64(val);
      auto cb = g_sb->register_callback(cb_ret<T>);
      auto restore = rlbox::detail::make_scope_exit([&] { cb.unregister(); });
      auto g = guest_call<guest_t<T>>(cb);
      out = "GG:" + show_guest<T>(g) + " runs=" + std::to_string(g_runs);
    }
  } catch (const std::runtime_error& e) {
    out = "ABORT runs=" + std::to_string(g_runs);
  }
  return out;
}

static std::string run_case(const toks_t& t)
{
  if (t.size() != 4) return "HARNESS-ERROR arity";
  if (!g_sb) {
    g_sb = std::make_unique<sandbox_t>();
#ifndef CBK_NOOP
    Sbx::fixed_base_hint = uintptr_t(sizeof(typename Sbx::T_PointerType) == 2 ? 6 : 1) << 44;
#endif
    g_sb->create_sandbox();
  }
  const std::string& k = t[2];
  if (k == "ptr") return one<int*>(t[1], t[3]);
  if (k == "cptr") return one<const char*>(t[1], t[3]);
  if (k == "vptr") return one<void*>(t[1], t[3]);
  if (k == "schar") return one<signed char>(t[1], t[3]);
  if (k == "uchar") return one<unsigned char>(t[1], t[3]);
  if (k == "short") return one<short>(t[1], t[3]);
  if (k == "ushort") return one<unsigned short>(t[1], t[3]);
  if (k == "int") return one<int>(t[1], t[3]);
  if (k == "uint") return one<unsigned int>(t[1], t[3]);
  if (k == "long") return one<long>(t[1], t[3]);
  if (k == "ulong") return one<unsigned long>(t[1], t[3]);
  if (k == "llong") return one<long long>(t[1], t[3]);
  if (k == "ullong") return one<unsigned long long>(t[1], t[3]);
  return "HARNESS-ERROR kind";
}

int main(int argc, char** argv) { return case_loop(argc, argv, run_case); }

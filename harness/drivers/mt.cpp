// mt.cpp — distinct sandbox instances used from distinct threads (C18).  Each thread runs its own
// history (the operation language of life.cpp) on its own sandbox objects; all threads start together
// and yield / spin pseudo-randomly between operations; the whole experiment is repeated R times.
// Output: the per-thread outcome strings if they were the same in every repetition, else UNSTABLE.
//   mt32|mtn|mtne|mtd <R> | <ops of thread 0> | <ops of thread 1> | ...
#define LIFE_NO_MAIN
#include "life.cpp"
#include <atomic>
#include <thread>

static std::atomic<int> g_go{ 0 };
static thread_local uint64_t g_rng = 1;
static void shake()
{
  g_rng = g_rng * 6364136223846793005ull + 1442695040888963407ull;
  unsigned r = unsigned(g_rng >> 60);
  if (r < 6) std::this_thread::yield();
  else if (r < 10) { volatile int x = 0; for (unsigned k = 0; k < (unsigned(g_rng >> 40) & 0x3ff); k++) x = x + 1; }
}

static std::string run_mt(const toks_t& t)
{
  int reps = std::stoi(t.at(1));
  std::vector<toks_t> progs;
  toks_t cur{ "life" };
  for (size_t i = 3; i < t.size(); i++) {
    if (t[i] == "|") { progs.push_back(cur); cur = toks_t{ "life" }; }
    else cur.push_back(t[i]);
  }
  progs.push_back(cur);
  size_t n = progs.size();
  std::vector<std::string> first;
  for (int rep = 0; rep < reps; rep++) {
    std::vector<std::string> res(n);
    std::vector<std::thread> th;
    g_go = 0;
    for (size_t k = 0; k < n; k++) {
      th.emplace_back([&, k] {
        g_thread = int(k);
        g_rng = uint64_t(rep) * 1000003u + k * 7919u + 12345u;
        while (g_go.load() == 0) std::this_thread::yield();
        try { res[k] = run_case(progs[k]); }
        catch (const std::exception& e) { res[k] = std::string("EXC ") + e.what(); }
      });
    }
    g_go = 1;
    for (auto& x : th) x.join();
    if (rep == 0) first = res;
    else if (res != first) {
      for (size_t k = 0; k < n; k++)
        if (res[k] != first[k]) return "UNSTABLE rep=" + std::to_string(rep) + " thread=" + std::to_string(k) + " first=[" + first[k] + "] now=[" + res[k] + "]";
    }
  }
  std::string out;
  for (size_t k = 0; k < n; k++) out += (k ? " | " : "") + first[k];
  return out;
}

int main(int argc, char** argv)
{
  g_between_ops = shake;
#ifdef LIFE_NOOP
  g_in_guest = [] { std::this_thread::yield(); shake(); };
#endif
  return case_loop(argc, argv, run_mt);
}

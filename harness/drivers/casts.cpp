// casts.cpp — tainted_opaque round trips and the three sandbox casts (C20), verif32 back end.
//   opq <kind> <val>                 byte image of tainted<T>, of its to_opaque(), value after from_opaque
//   opqp <off>                       same for a pointer (off = 0: null)
//   opqs <a> <b> <poff> <c>          struct S1: opaque round trip field by field + image comparison
//   opqarg <T|O> <val>               a sandbox function called with tainted<long> / with the tainted_opaque<long> made from it
//   opqcb <guestval>                 a callback taking and returning tainted_opaque<long>, called by guest code
//   opqcbf <dbits> <fbits> <guestlong>  a callback taking tainted_opaque<double>, <float>, <long> and returning tainted_opaque<double>
//   scast <to> <from> <T|V> <val>    sandbox_static_cast<to> of a tainted / tainted_volatile <from>
//   pcast <which> <T|V> <off>        sandbox_reinterpret_cast / sandbox_const_cast / sandbox_static_cast on pointers
#define INV_CFG verif_cfg32
#define INV_STATIC
#include "inv_common.hpp"

static std::string hex(const void* p, size_t n)
{
  static const char* hx = "0123456789abcdef";
  std::string s;
  auto b = static_cast<const uint8_t*>(p);
  for (size_t i = 0; i < n; i++) { s += hx[b[i] >> 4]; s += hx[b[i] & 15]; }
  return s;
}

static std::unique_ptr<sandbox_t> g_sbx;
static void cast_fn1() {}
static void cast_fn2() {}
static void cast_fn3() {}
static void (*const g_cast_fns[3])() = { cast_fn1, cast_fn2, cast_fn3 };      // entries 1..3 of the sandbox's function table

// a sandbox function that returns a FUNCTION pointer: entry g_ret_fn_k of its function table (0 = null)
using cast_fn_t = void (*)();
cast_fn_t ret_fn();
static rep_t g_ret_fn_k = 0;
static rep_t guest_ret_fn() { return g_ret_fn_k; }

// a sandbox function of one long parameter: logs what it observes (guest ABI) and returns it
long id_long(long);
static g_t<long> guest_id_long(g_t<long> v);
long echo_opq(long (*)(long), long);
static g_t<long> guest_echo_opq(rep_t cb, g_t<long> v)
{
  return Sbx::guest_call_callback<g_t<long>, g_t<long>>(cb, v);
}
static rlbox::tainted_opaque<long, Sbx> cb_opq(sandbox_t&, rlbox::tainted_opaque<long, Sbx> x)
{
  rlbox::tainted<long, Sbx> t = rlbox::from_opaque(x);
  glog(t.UNSAFE_unverified());
  return t.to_opaque();
}

static g_t<long> guest_id_long(g_t<long> v) { glog(v); return v; }
double echo_opqf(double (*)(double, float, long), double, float, long);
static double guest_echo_opqf(rep_t cb, double a, float b, g_t<long> c)
{
  return Sbx::guest_call_callback<double, double, float, g_t<long>>(cb, a, b, c);
}
static rlbox::tainted_opaque<double, Sbx> cb_opqf(sandbox_t&, rlbox::tainted_opaque<double, Sbx> a, rlbox::tainted_opaque<float, Sbx> b,
                                                   rlbox::tainted_opaque<long, Sbx> c)
{
  rlbox::tainted<double, Sbx> ta = rlbox::from_opaque(a);
  glog(ta.UNSAFE_unverified());
  glog(rlbox::from_opaque(b).UNSAFE_unverified());
  glog(rlbox::from_opaque(c).UNSAFE_unverified());
  return ta.to_opaque();
}

template<typename F>
static bool with_any(const std::string& k, F&& f)
{
  if (with_kind(k, f)) return true;
  if (k == "enum") { f(tag<En>{}); return true; }
  if (k == "float") { f(tag<float>{}); return true; }
  if (k == "double") { f(tag<double>{}); return true; }
  return false;
}

static std::string run_case(const toks_t& t)
{
  sandbox_t& sb = *g_sbx;
  const std::string& op = t.at(0);
  std::string out = "HARNESS-ERROR";
  if (op == "opq") {
    with_any(t.at(1), [&](auto tg) {
      using T = typename decltype(tg)::type;
      if constexpr (std::is_same_v<T, wchar_t>) { out = "SKIP"; }
      else {
        rlbox::tainted<T, Sbx> x = parse_val<T>(t.at(2));
        auto o = x.to_opaque();
        static_assert(sizeof(o) == sizeof(x) && sizeof(x) == sizeof(T));
        std::string opq_img = hex(&o, sizeof(o));
        // the value converted back is a value of its own (bound the way callers may bind it): what happens to the opaque
        // slot afterwards does not concern it
        const auto& back = rlbox::from_opaque(o);
        std::memset(static_cast<void*>(&o), 0, sizeof(o));
        out = "IMG=" + hex(&x, sizeof(x)) + " OPQ=" + opq_img + " BACK=" + show_val(back.UNSAFE_unverified());
      }
    });
  } else if (op == "opqp") {
    auto x = mk_tptr<int*>(sb, t.at(1));
    auto o = x.to_opaque();
    std::string opq_img = hex(&o, sizeof(o));
    const auto& back = rlbox::from_opaque(o);
    std::memset(static_cast<void*>(&o), 0, sizeof(o));
    out = "IMG=" + hex(&x, sizeof(x)) + " OPQ=" + opq_img + " BACK=" + std::to_string(reinterpret_cast<uintptr_t>(back.UNSAFE_unverified()));
  } else if (op == "opqs") {
    auto x = mk_s1(sb, t.at(1) + ";" + t.at(2) + ";" + t.at(3) + ";" + t.at(4));
    auto o = x.to_opaque();
    auto back = rlbox::from_opaque(o);
    bool same = sizeof(o) == sizeof(x) && std::memcmp(&o, &x, sizeof(x)) == 0 && std::memcmp(&back, &x, sizeof(x)) == 0;
    out = std::string("SAMEIMG=") + (same ? "1" : "0") + " BACK=" + show_result(back);
  } else if (op == "opqcb") {
    auto cb = sb.register_callback(cb_opq);
    g_glog.clear();
    auto r = sb.invoke_sandbox_function(echo_opq, cb, parse_val<long>(t.at(1)));
    out = "SAW=" + g_glog + " R=" + show_val(r.UNSAFE_unverified());
  } else if (op == "opqarg") {
    // the same application value handed to a sandbox function as tainted<long> (T) or as the tainted_opaque<long> made from it (O)
    rlbox::tainted<long, Sbx> x = parse_val<long>(t.at(2));
    g_glog.clear();
    if (t.at(1) == "O") {
      auto r = sb.invoke_sandbox_function(id_long, x.to_opaque());
      out = "SAW=" + g_glog + " R=" + show_val(r.UNSAFE_unverified());
    } else {
      auto r = sb.invoke_sandbox_function(id_long, x);
      out = "SAW=" + g_glog + " R=" + show_val(r.UNSAFE_unverified());
    }
  } else if (op == "opqcbf") {
    auto cb = sb.register_callback(cb_opqf);
    g_glog.clear();
    auto r = sb.invoke_sandbox_function(echo_opqf, cb, parse_val<double>(t.at(1)), parse_val<float>(t.at(2)), parse_val<long>(t.at(3)));
    out = "SAW=" + g_glog + " R=" + show_val(r.UNSAFE_unverified());
  } else if (op == "scast") {
    bool vol = t.at(3) == "V";
    with_kind(t.at(1), [&](auto tt) {
      using To = typename decltype(tt)::type;
      with_kind(t.at(2), [&](auto tf) {
        using From = typename decltype(tf)::type;
        if constexpr (std::is_same_v<To, wchar_t> || std::is_same_v<From, wchar_t>) { out = "SKIP"; }
        else {
          From v = parse_val<From>(t.at(4));
          From plain = v;
          if (vol) {
            auto c = sb.malloc_in_sandbox<From>();
            *c = v;
            auto r = rlbox::sandbox_static_cast<To>(*c);
            static_assert(std::is_same_v<decltype(r), rlbox::tainted<To, Sbx>>);
            out = "V " + show_val(r.UNSAFE_unverified()) + " P " + show_val(static_cast<To>(plain));
            sb.free_in_sandbox(c);
          } else {
            rlbox::tainted<From, Sbx> x = v;
            auto r = rlbox::sandbox_static_cast<To>(x);
            static_assert(std::is_same_v<decltype(r), rlbox::tainted<To, Sbx>>);
            out = "V " + show_val(r.UNSAFE_unverified()) + " P " + show_val(static_cast<To>(plain));
          }
        }
      });
    });
  } else if (op == "pcast") {
    const std::string& which = t.at(1);
    bool vol = t.at(2) == "V";
    auto x = mk_tptr<long*>(sb, t.at(3));
    uintptr_t res = 0;
    auto run = [&](auto& src) {
      if (which == "reinterpret") res = reinterpret_cast<uintptr_t>(rlbox::sandbox_reinterpret_cast<char*>(src).UNSAFE_unverified());
      else if (which == "reinterpret2") res = reinterpret_cast<uintptr_t>(rlbox::sandbox_reinterpret_cast<S1*>(src).UNSAFE_unverified());
      else if (which == "const") res = reinterpret_cast<uintptr_t>(rlbox::sandbox_const_cast<const long*>(src).UNSAFE_unverified());
      else if (which == "static") res = reinterpret_cast<uintptr_t>(rlbox::sandbox_static_cast<void*>(src).UNSAFE_unverified());
      else throw std::runtime_error("HARNESS bad cast");
    };
    if (vol) {
      auto cell = sb.malloc_in_sandbox<long*>();
      *cell = x;
      run(*cell);
      sb.free_in_sandbox(cell);
    } else {
      run(x);
    }
    out = "A " + std::to_string(res);
  } else if (op == "retfn") {
    // retfn <k>: the result of a sandbox call is a function pointer (C11): the tainted result designates entry k
    g_ret_fn_k = static_cast<rep_t>(parse_u64(t.at(1)));
    auto r = sb.invoke_sandbox_function(ret_fn);
    uintptr_t res = reinterpret_cast<uintptr_t>(r.UNSAFE_unverified());
    std::string who = "other:" + std::to_string(res);
    if (res == 0) who = "null";
    for (unsigned j = 0; j < 3; j++) if (res == reinterpret_cast<uintptr_t>(g_cast_fns[j])) who = "fn" + std::to_string(j + 1);
    out = "A " + who;
  } else if (op == "pcastfn") {
    // pcastfn <k> <T|V> <void|char|fn2>: a FUNCTION pointer (entry k of the sandbox's function table, 0 = null), held in
    // application memory or in a sandbox cell, cast across the function / data boundary (or to another function type):
    // the result designates what the C++ cast of the function's address designates
    using fn_t = void (*)();
    using fn2_t = int (*)(int);
    unsigned k = static_cast<unsigned>(parse_u64(t.at(1)));
    bool vol = t.at(2) == "V";
    const std::string& to = t.at(3);
    auto cell = sb.malloc_in_sandbox<fn_t>();
    rep_t rep = static_cast<rep_t>(k);
    std::memcpy(cell.UNSAFE_unverified(), &rep, sizeof(rep));
    uintptr_t res = 0;
    auto run = [&](auto& src) {
      if (to == "void") res = reinterpret_cast<uintptr_t>(rlbox::sandbox_reinterpret_cast<void*>(src).UNSAFE_unverified());
      else if (to == "char") res = reinterpret_cast<uintptr_t>(rlbox::sandbox_reinterpret_cast<char*>(src).UNSAFE_unverified());
      else res = reinterpret_cast<uintptr_t>(rlbox::sandbox_reinterpret_cast<fn2_t>(src).UNSAFE_unverified());
    };
    if (vol) run(*cell);
    else { rlbox::tainted<fn_t, Sbx> x = *cell; run(x); }
    std::string who = "other:" + std::to_string(res);
    if (res == 0) who = "null";
    for (unsigned j = 0; j < 3; j++) if (res == reinterpret_cast<uintptr_t>(g_cast_fns[j])) who = "fn" + std::to_string(j + 1);
    out = "A " + who;
  }
  return out;
}

int main(int argc, char** argv)
{
  g_sbx = std::make_unique<sandbox_t>();
  Sbx::fixed_base_hint = uintptr_t(1) << 44;
  g_sbx->create_sandbox(nullptr, false);
  g_base = g_sbx->get_sandbox_impl()->region_base();
  for (auto f : g_cast_fns) g_sbx->get_sandbox_impl()->function_table.push_back(reinterpret_cast<const void*>(f));
  return case_loop(argc, argv, run_case);
}

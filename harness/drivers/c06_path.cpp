// C06 path driver: integers crossing through the real API on a foreign-ABI
// back end: store / load through tainted pointers, call argument / result,
// callback argument / result.   Compile with -DVERIF_CFG=verif_cfg32 or verif_cfgwide.
#define RLBOX_USE_EXCEPTIONS
#define RLBOX_SINGLE_THREADED_INVOCATIONS
#define RLBOX_USE_STATIC_CALLS() verif_static_lookup
#include "rlbox.hpp"
#include "verif_sandbox.hpp"
#include "common.hpp"

using namespace vh;
using Sbx = rlbox::rlbox_verif_sandbox<rlbox::VERIF_CFG>;
using sandbox_t = rlbox::rlbox_sandbox<Sbx>;
template<typename K>
using G = typename sandbox_t::template convert_to_sandbox_equivalent_nonclass_t<K>;

#define verif_static_lookup(f) reinterpret_cast<void*>(&guest_##f)

// ---- guest side (native code against the guest ABI) ----
static std::string g_seen;      // what the guest observed, canonical
static std::string g_preset;    // value the guest returns / passes, decimal

// application-ABI prototypes (never defined): K idf<K>(K);  K callcb<K>(K(*)(K), K);
template<typename K> K idf(K);
template<typename K> K callcb(K (*)(K), K);

template<typename K>
G<K> guest_idf(G<K> x)
{
  g_seen = show_int(x);
  return parse_int<G<K>>(g_preset);
}

template<typename K>
G<K> guest_callcb(Sbx::T_PointerType cb, G<K> /*unused*/)
{
  G<K> x = parse_int<G<K>>(g_preset);
  G<K> r = Sbx::template guest_call_callback<G<K>, G<K>>(cb, x);
  g_seen = show_int(r);
  return 0;
}

// ---- application side ----
static std::string g_cb_seen;
static std::string g_cb_ret;
template<typename K>
rlbox::tainted<K, Sbx> app_cb(sandbox_t&, rlbox::tainted<K, Sbx> a)
{
  g_cb_seen = show_int(a.UNSAFE_unverified());
  rlbox::tainted<K, Sbx> r = parse_int<K>(g_cb_ret);
  return r;
}

static sandbox_t sandbox;

template<typename K>
static std::string run_kind(const std::string& op, const std::string& v)
{
  if (op == "equiv") {
    return "EQUIV size=" + std::to_string(sizeof(G<K>)) + " signed=" + (std::is_signed_v<G<K>> ? "1" : "0") +
           " tvsize=" + std::to_string(sizeof(rlbox::tainted_volatile<K, Sbx>));
  }
  if (op == "store") {
    auto p = sandbox.template malloc_in_sandbox<K>();
    std::memset(p.UNSAFE_unverified(), 0xAB, 16);
    *p = parse_int<K>(v);
    G<K> raw;
    std::memcpy(&raw, p.UNSAFE_unverified(), sizeof(raw));
    return "OK " + show_int(raw);
  }
  if (op == "load") {
    auto p = sandbox.template malloc_in_sandbox<K>();
    G<K> raw = parse_int<G<K>>(v);
    std::memcpy(p.UNSAFE_unverified(), &raw, sizeof(raw));
    rlbox::tainted<K, Sbx> t = *p;
    return "OK " + show_int(t.UNSAFE_unverified());
  }
  if (op == "loadw") return "HARNESS-ERROR loadw arity";
  if (op == "loadcv" || op == "loadcvp" || op == "loadidx" || op == "loadcvr") {
    // the other load paths: element 1 of a two-element guest array holds the value under test
    auto p = sandbox.template malloc_in_sandbox<K>(2);
    G<K> raw[2] = { G<K>{}, parse_int<G<K>>(v) };
    std::memcpy(p.UNSAFE_unverified(), raw, sizeof(raw));
    if (op == "loadidx") return "OK " + show_int(p[1].UNSAFE_unverified());
    if (op == "loadcv") return "OK " + show_int(p[1].copy_and_verify([](K x) { return x; }));
    if (op == "loadcvp") return "OK " + show_int((p + 1).copy_and_verify([](std::unique_ptr<K> x) { return *x; }));
    K got{};
    p.copy_and_verify_range([&](std::unique_ptr<K[]> a) { got = a[1]; return 0; }, 2);
    return "OK " + show_int(got);
  }
  if (op == "arg") {
    g_preset = "0"; g_seen = "none";
    sandbox.invoke_sandbox_function(idf<K>, parse_int<K>(v));
    return "OK " + g_seen;
  }
  if (op == "ret") {
    g_preset = v;
    auto r = sandbox.invoke_sandbox_function(idf<K>, K{});
    return "OK " + show_int(r.UNSAFE_unverified());
  }
  if (op == "cbarg" || op == "cbret") {
    auto cb = sandbox.register_callback(app_cb<K>);
    g_cb_seen = "none"; g_seen = "none";
    if (op == "cbarg") { g_preset = v; g_cb_ret = "0"; }
    else { g_preset = "0"; g_cb_ret = v; }
    sandbox.invoke_sandbox_function(callcb<K>, cb, K{});
    return "OK " + (op == "cbarg" ? g_cb_seen : g_seen);
  }
  return "HARNESS-ERROR op";
}

// loadw <abi> <kind> <v> <evil> <nth>: the cell holds v; the sandbox rewrites it to evil right before the nth read
// notification of that cell (read-notification hook of /repo): a conversion that reads the cell more than once is exposed
static const volatile void* g_watch_cell = nullptr;
static unsigned char g_watch_bytes[16];
static size_t g_watch_len = 0;
static unsigned g_watch_reads = 0, g_watch_nth = 0;
static void watch_hook(const volatile void* addr)
{
  if (addr != g_watch_cell) return;
  g_watch_reads++;
  if (g_watch_reads == g_watch_nth) std::memcpy(const_cast<void*>(g_watch_cell), g_watch_bytes, g_watch_len);
}
template<typename K>
static std::string run_loadw(const std::string& v, const std::string& evil, const std::string& nth)
{
  auto p = sandbox.template malloc_in_sandbox<K>();
  G<K> raw = parse_int<G<K>>(v), ev = parse_int<G<K>>(evil);
  std::memcpy(p.UNSAFE_unverified(), &raw, sizeof(raw));
  std::memcpy(g_watch_bytes, &ev, sizeof(ev));
  g_watch_len = sizeof(ev);
  g_watch_cell = p.UNSAFE_unverified();
  g_watch_reads = 0;
  g_watch_nth = static_cast<unsigned>(std::stoul(nth));
  rlbox::detail::verif_conv_read_hook = watch_hook;
  rlbox::detail::verif_read_hook = watch_hook;
  std::string out;
  try {
    rlbox::tainted<K, Sbx> t = *p;
    out = "OK " + show_int(t.UNSAFE_unverified());
  } catch (...) { rlbox::detail::verif_conv_read_hook = nullptr; rlbox::detail::verif_read_hook = nullptr; throw; }
  rlbox::detail::verif_conv_read_hook = nullptr;
  rlbox::detail::verif_read_hook = nullptr;
  return out;
}

// storemix <abi> <pointee kind> <value kind> <v>: a plain value of one integer type stored through a
// tainted pointer to another (tainted_volatile<K>::operator= with an unwrapped right-hand side)
template<typename K, typename F>
static std::string run_storemix(const std::string& v)
{
  auto p = sandbox.template malloc_in_sandbox<K>();
  std::memset(p.UNSAFE_unverified(), 0xAB, 16);
  *p = parse_int<F>(v);
  G<K> raw;
  std::memcpy(&raw, p.UNSAFE_unverified(), sizeof(raw));
  return "OK " + show_int(raw);
}

static std::string run_case(const toks_t& t0)
{
  // <op> <abi> <kind> <v>   (ops of the wide configuration carry a 'w' prefix)
  toks_t t = t0;
  if (!t.empty() && t[0].size() > 1 && (t[0][0] == 'w' || t[0][0] == 'x')) t[0] = t[0].substr(1);
  std::string out = "HARNESS-ERROR unknown";
  if (t.size() < 3) return out;
  sandbox.get_sandbox_impl()->bump = 16;
  if (t[2] == "wchar") return "NOCOMPILE";
  if (t[0] == "storemix") {
    if (t.size() < 5 || t[3] == "wchar") return "NOCOMPILE";
    with_kind(t[2], [&](auto k) {
      using K = typename decltype(k)::type;
      with_kind(t[3], [&](auto f) {
        using F = typename decltype(f)::type;
        if constexpr (!std::is_same_v<K, wchar_t> && !std::is_same_v<F, wchar_t>) out = run_storemix<K, F>(t[4]);
      });
    });
    return out;
  }
  with_kind(t[2], [&](auto k) {
    using K = typename decltype(k)::type;
    if constexpr (!std::is_same_v<K, wchar_t>) {
      if (t[0] == "loadw" && t.size() > 5) {
        if constexpr (!std::is_same_v<K, bool>) out = run_loadw<K>(t[3], t[4], t[5]);
      } else {
        out = run_kind<K>(t[0], t.size() > 3 ? t[3] : "0");
      }
    }
  });
  return out;
}

int main(int argc, char** argv)
{
  sandbox.create_sandbox();
  return case_loop(argc, argv, run_case);
}

// C15 driver: rlbox::app_pointer_map<T> with 8/16/32/64-bit token types, and the
// owner layer (app_pointer objects) through rlbox_sandbox<verif16>.
#define RLBOX_USE_EXCEPTIONS
#define RLBOX_SINGLE_THREADED_INVOCATIONS
#include "rlbox.hpp"
#include "verif_sandbox.hpp"
#include "common.hpp"
#include <memory>

using namespace vh;

// amap <bits> <max> <op>...   ops: r:<ptr>  x:<idx>  l:<idx>
template<typename T>
static std::string run_amap(const toks_t& t)
{
  rlbox::app_pointer_map<T> m;
  T max = static_cast<T>(parse_u64(t[2]));
  std::string out;
  for (size_t k = 3; k < t.size(); k++) {
    toks_t o = split(t[k], ':');
    if (!out.empty()) out += ",";
    try {
      if (o[0] == "r") {
        T idx = m.get_app_pointer_idx(reinterpret_cast<void*>(parse_u64(o[1])), max);
        out += "r=" + std::to_string((unsigned long long)idx);
      } else if (o[0] == "x") {
        m.remove_app_ptr(static_cast<T>(parse_u64(o[1])));
        out += "x=ok";
      } else if (o[0] == "l") {
        void* p = m.lookup_index(static_cast<T>(parse_u64(o[1])));
        out += "l=" + std::to_string(reinterpret_cast<uintptr_t>(p));
      }
    } catch (const std::runtime_error&) {
      out += o[0] + "=ABORT";
      break;    // an abort ends the history
    }
  }
  return "SEQ " + out;
}

using Sbx = rlbox::rlbox_verif16_sandbox;
using sandbox_t = rlbox::rlbox_sandbox<Sbx>;
using owner_t = rlbox::app_pointer<int*, Sbx>;

// aown <op>...   ops: g:<k>:<ptr>  m:<k>:<j>  d:<k>  l:<k>  u:<k> (is_unregistered)  t:<tok> (lookup raw token)
static std::string run_aown(const toks_t& t)
{
  auto sandbox = std::make_unique<sandbox_t>();
  Sbx::fixed_base_hint = uintptr_t(6) << 44;
  sandbox->create_sandbox();
  std::string out;
  {
    owner_t owners[3];
    for (size_t k = 1; k < t.size(); k++) {
      toks_t o = split(t[k], ':');
      if (!out.empty()) out += ",";
      try {
        if (o[0] == "g") {
          size_t s = parse_u64(o[1]);
          owners[s] = sandbox->get_app_pointer(reinterpret_cast<int*>(parse_u64(o[2])));
          out += "g=" + std::to_string(owners[s].UNSAFE_sandboxed(*sandbox));
        } else if (o[0] == "m") {
          size_t a = parse_u64(o[1]), b = parse_u64(o[2]);
          owners[a] = std::move(owners[b]);
          out += "m=ok";
        } else if (o[0] == "d") {
          owners[parse_u64(o[1])].unregister();
          out += "d=ok";
        } else if (o[0] == "u") {
          out += std::string("u=") + (owners[parse_u64(o[1])].is_unregistered() ? "1" : "0");
        } else if (o[0] == "l") {
          auto tp = owners[parse_u64(o[1])].to_tainted();
          int* p = sandbox->lookup_app_ptr(tp);
          out += "l=" + std::to_string(reinterpret_cast<uintptr_t>(p)) + "@" +
                 std::to_string(tp.UNSAFE_sandboxed(*sandbox));
        } else if (o[0] == "t") {
          rlbox::tainted<int*, Sbx> tp = nullptr;
          tp.assign_raw_pointer(*sandbox, reinterpret_cast<int*>((uintptr_t(6) << 44) + parse_u64(o[1])));
          int* p = sandbox->lookup_app_ptr(tp);
          out += "t=" + std::to_string(reinterpret_cast<uintptr_t>(p));
        }
      } catch (const std::runtime_error&) {
        out += o[0] + "=ABORT";
        break;
      }
    }
  }
  sandbox->destroy_sandbox();
  return "SEQ " + out;
}

// aown2 <op>...  the owner layer over TWO live sandboxes (each table issues tokens from 1: equal tokens in different
// sandboxes).  ops: g:<k>:<s>:<ptr>  m:<k>:<j>  d:<k>  u:<k>  l:<k> (lookup through the owner, in the sandbox it belongs to)
// t:<s>:<tok> (lookup of a raw token in sandbox s)
static std::string run_aown2(const toks_t& t)
{
  std::unique_ptr<sandbox_t> sb[2];
  for (int i = 0; i < 2; i++) {
    sb[i] = std::make_unique<sandbox_t>();
    Sbx::fixed_base_hint = uintptr_t(6 + i) << 44;
    sb[i]->create_sandbox();
  }
  std::string out;
  {
    owner_t owners[3];
    int own_sb[3] = { 0, 0, 0 };
    for (size_t k = 1; k < t.size(); k++) {
      toks_t o = split(t[k], ':');
      if (!out.empty()) out += ",";
      try {
        if (o[0] == "g") {
          size_t a = parse_u64(o[1]), s = parse_u64(o[2]);
          owners[a] = sb[s]->get_app_pointer(reinterpret_cast<int*>(parse_u64(o[3])));
          own_sb[a] = int(s);
          out += "g=" + std::to_string(owners[a].UNSAFE_sandboxed(*sb[s]));
        } else if (o[0] == "m") {
          size_t a = parse_u64(o[1]), b = parse_u64(o[2]);
          owners[a] = std::move(owners[b]);
          own_sb[a] = own_sb[b];
          out += "m=ok";
        } else if (o[0] == "d") {
          owners[parse_u64(o[1])].unregister();
          out += "d=ok";
        } else if (o[0] == "u") {
          out += std::string("u=") + (owners[parse_u64(o[1])].is_unregistered() ? "1" : "0");
        } else if (o[0] == "l") {
          size_t a = parse_u64(o[1]);
          auto tp = owners[a].to_tainted();
          int* p = sb[own_sb[a]]->lookup_app_ptr(tp);
          out += "l=" + std::to_string(reinterpret_cast<uintptr_t>(p)) + "@" + std::to_string(tp.UNSAFE_sandboxed(*sb[own_sb[a]]));
        } else if (o[0] == "t") {
          size_t s = parse_u64(o[1]);
          rlbox::tainted<int*, Sbx> tp = nullptr;
          tp.assign_raw_pointer(*sb[s], reinterpret_cast<int*>((uintptr_t(6 + s) << 44) + parse_u64(o[2])));
          int* p = sb[s]->lookup_app_ptr(tp);
          out += "t=" + std::to_string(reinterpret_cast<uintptr_t>(p));
        }
      } catch (const std::runtime_error&) {
        out += o[0] + "=ABORT";
        break;
      }
    }
  }
  for (int i = 0; i < 2; i++) sb[i]->destroy_sandbox();
  return "SEQ " + out;
}

static std::string run_case(const toks_t& t)
{
  if (t[0] == "amap") {
    if (t[1] == "8") return run_amap<uint8_t>(t);
    if (t[1] == "16") return run_amap<uint16_t>(t);
    if (t[1] == "32") return run_amap<uint32_t>(t);
    if (t[1] == "64") return run_amap<uint64_t>(t);
  }
  if (t[0] == "aown") return run_aown(t);
  if (t[0] == "aown2") return run_aown2(t);
  return "HARNESS-ERROR op";
}

int main(int argc, char** argv) { return case_loop(argc, argv, run_case); }

// verify.cpp — the copy_and_verify family against an adversarial sandbox (C09).
// Uses the guarded hook RLBOX_VERIF_INTERLEAVE (-DALLENABY_RLBOX_VERIF): at interleave point
// number i the harness applies the mutations scheduled for i to sandbox memory.
// The window is the LAST w bytes of sandbox memory, so that RLBox's range check is "off + n <= w"
// and a scan that finds no terminator runs into the guard page.
//   <op> <variant> <off> <a> <b> <hex window bytes> <schedule>     schedule: i:off:byte,... or -
//   variants: val <elsz> | ptr <elsz> | range <elsz> <count> | stru | strs | cmda <num>
//             structv : copy_and_verify BY VALUE on a registered 8-byte struct lying in the window, with a verifier whose
//             parameter type is deduced (const auto&): it must be handed a copy in application memory
//             ptrc <elsz> : copy_and_verify on a POINTER CELL in the window (a tainted_volatile<T*>) whose value designates
//             an object elsewhere in the window: the pointer is fetched ONCE
//             cvba <size> | cva : copy_and_verify_buffer_address / copy_and_verify_address on a POINTER CELL that lies in
//             the window at <off> (a tainted_volatile<char*>); for these the first consultation of the back end during the
//             range check counts as one more interleave point
#define RLBOX_USE_EXCEPTIONS
#define RLBOX_SINGLE_THREADED_INVOCATIONS
#include <cstddef>
#include <cstdlib>
#include <new>
static bool g_track_new = false;
static size_t g_last_array_new = 0;
void* operator new[](std::size_t n)
{
  if (g_track_new) g_last_array_new = n;
  void* p = std::malloc(n ? n : 1);
  if (!p) throw std::bad_alloc();
  return p;
}
void operator delete[](void* p) noexcept { std::free(p); }
void operator delete[](void* p, std::size_t) noexcept { std::free(p); }

#include "rlbox.hpp"
#include "verif_sandbox.hpp"
#include "common.hpp"
#include <map>
#include <memory>

// a registered struct for the by-value struct verifier (same layout under the host and the verif32 ABI)
struct SV { unsigned int len; unsigned int tag; };
#define sandbox_fields_reflection_vf_class_SV(f, g, ...)                       \
  f(unsigned int, len, FIELD_NORMAL, ##__VA_ARGS__) g()                        \
  f(unsigned int, tag, FIELD_NORMAL, ##__VA_ARGS__) g()
#define sandbox_fields_reflection_vf_allClasses(f, ...) f(SV, vf, ##__VA_ARGS__)
rlbox_load_structs_from_library(vf);

using namespace vh;
using Sbx = rlbox::rlbox_verif32_sandbox;
using sandbox_t = rlbox::rlbox_sandbox<Sbx>;
template<typename T> using tainted = rlbox::tainted<T, Sbx>;

static std::unique_ptr<sandbox_t> g_sb;
static uintptr_t g_base;
static uint8_t* g_win;          // start of the window
static size_t g_w;
static std::multimap<int, std::pair<size_t, uint8_t>> g_sched;
static int g_tick;

static void hook(const char*)
{
  auto r = g_sched.equal_range(g_tick);
  for (auto it = r.first; it != r.second; ++it) {
    if (it->second.first < g_w) g_win[it->second.first] = it->second.second;
  }
  g_tick++;
}

static bool g_be_seen = false;
// read notifications of one watched cell count as points of the schedule (variant ptrsw)
static const volatile void* g_read_cell = nullptr;
static void read_hook(const volatile void* addr)
{
  if (addr == g_read_cell) hook("read");
}
static void be_hook(const char* site)
{
  if (std::strcmp(site, "be.same") != 0) return;      // only the consultation inside the range check counts here
  if (!g_be_seen) { g_be_seen = true; hook(site); }
}

static std::string hex(const uint8_t* p, size_t n)
{
  static const char* hx = "0123456789abcdef";
  std::string s;
  for (size_t i = 0; i < n; i++) { s += hx[p[i] >> 4]; s += hx[p[i] & 15]; }
  return s;
}

// what the verifier does with the object it is handed: classify its address, snapshot it,
// overwrite the whole window, look again
static std::string inspect(const void* obj, size_t n)
{
  auto a = reinterpret_cast<uintptr_t>(obj);
  bool in_sbx = a >= g_base && a - g_base < Sbx::T_PointerType(-1);
  std::string s1 = hex(static_cast<const uint8_t*>(obj), n);
  std::memset(g_win, 0xEE, g_w);
  std::string s2 = hex(static_cast<const uint8_t*>(obj), n);
  return "V " + s1 + " where=" + (in_sbx ? "SBX" : "app") + " alias=" + (s1 == s2 ? "no" : "YES");
}

template<typename T>
static std::string do_val(size_t off)
{
  auto p = g_sb->UNSAFE_accept_pointer(reinterpret_cast<T*>(g_win + off));
  std::string out;
  (*p).copy_and_verify([&](T v) { out = inspect(&v, sizeof(T)); return 0; });
  return out;
}
template<typename T>
static std::string do_ptr(size_t off)
{
  auto p = g_sb->UNSAFE_accept_pointer(reinterpret_cast<T*>(g_win + off));
  std::string out;
  p.copy_and_verify([&](std::unique_ptr<T> v) { out = inspect(v.get(), sizeof(T)); return 0; });
  return out;
}
template<typename T>
static std::string do_range(size_t off, size_t count)
{
  auto p = g_sb->UNSAFE_accept_pointer(reinterpret_cast<T*>(g_win + off));
  std::string out;
  g_track_new = true; g_last_array_new = 0;
  p.copy_and_verify_range([&](std::unique_ptr<T[]> v) {
    g_track_new = false;
    out = inspect(v.get(), g_last_array_new) + " alloc=" + std::to_string(g_last_array_new);
    return 0;
  }, count);
  g_track_new = false;
  return out;
}

template<typename F>
static std::string by_size(size_t elsz, F&& f)
{
  switch (elsz) {
    case 1: return f(tag<unsigned char>{});
    case 2: return f(tag<unsigned short>{});
    case 4: return f(tag<unsigned int>{});
    case 8: return f(tag<unsigned long long>{});
    default: throw std::runtime_error("HARNESS bad element size");
  }
}

static std::string run_case(const toks_t& t)
{
  const std::string& variant = t.at(1);
  size_t off = parse_u64(t.at(2));
  size_t a = parse_u64(t.at(3)), b = parse_u64(t.at(4));
  const std::string& h = t.at(5);
  g_w = h.size() / 2;
  if (g_w == 0 || g_w > 4096) throw std::runtime_error("HARNESS bad window");
  g_win = reinterpret_cast<uint8_t*>(g_base + (uint64_t(1) << 32) - g_w);
  std::memset(reinterpret_cast<void*>(g_base + (uint64_t(1) << 32) - 4096), 0xCC, 4096);
  for (size_t i = 0; i < g_w; i++) g_win[i] = uint8_t(std::stoul(h.substr(2 * i, 2), nullptr, 16));
  g_sched.clear();
  if (t.size() > 6 && t[6] != "-") {
    for (auto& e : split(t[6], ',')) {
      toks_t f = split(e, ':');
      g_sched.insert({ std::stoi(f.at(0)), { size_t(std::stoul(f.at(1))), uint8_t(std::stoul(f.at(2))) } });
    }
  }
  g_tick = 0;
  rlbox::detail::verif_interleave_hook = hook;
  std::string out;
  try {
    if (variant == "val") out = by_size(a, [&](auto tg) { return do_val<typename decltype(tg)::type>(off); });
    else if (variant == "ptr") out = by_size(a, [&](auto tg) { return do_ptr<typename decltype(tg)::type>(off); });
    else if (variant == "range") out = by_size(a, [&](auto tg) { return do_range<typename decltype(tg)::type>(off, b); });
    else if (variant == "stru") {
      auto p = g_sb->UNSAFE_accept_pointer(reinterpret_cast<char*>(g_win + off));
      g_track_new = true; g_last_array_new = 0;
      p.copy_and_verify_string([&](std::unique_ptr<char[]> v) {
        g_track_new = false;
        out = inspect(v.get(), g_last_array_new) + " alloc=" + std::to_string(g_last_array_new);
        return 0;
      });
      g_track_new = false;
    } else if (variant == "strs") {
      auto p = g_sb->UNSAFE_accept_pointer(reinterpret_cast<char*>(g_win + off));
      p.copy_and_verify_string([&](std::string v) {
        out = inspect(v.data(), v.size()) + " alloc=" + std::to_string(v.size());
        return 0;
      });
    } else if (variant == "cmda") {
      auto p = g_sb->UNSAFE_accept_pointer(reinterpret_cast<char*>(g_win + off));
      bool copied = false;
      char* c = rlbox::copy_memory_or_deny_access(*g_sb, p, a, false, copied);
      out = inspect(c, a) + " alloc=" + std::to_string(a) + (copied ? "" : " NOTCOPIED");
      std::free(c);
    } else if (variant == "structv") {
      auto p = g_sb->UNSAFE_accept_pointer(reinterpret_cast<SV*>(g_win + off));
      (*p).copy_and_verify([&](const auto& v) { out = inspect(std::addressof(v), sizeof(SV)); return SV{}; });
    } else if (variant == "ptrc") {
      out = by_size(a, [&](auto tg) {
        using T = typename decltype(tg)::type;
        auto pp = g_sb->UNSAFE_accept_pointer(reinterpret_cast<T**>(g_win + off));
        auto& cellref = *pp;
        std::string o = "NULLPTR";
        cellref.copy_and_verify([&](std::unique_ptr<T> v) { if (v) o = inspect(v.get(), sizeof(T)); return 0; });
        return o;
      });
    } else if (variant == "strsc" || variant == "struc") {
      // copy_and_verify_string on a pointer CELL of sandbox memory (a tainted_volatile<char*>): the cell (4 bytes at off) holds
      // the representation of a string of the window; the adversary may redirect / null it at every interleave point
      auto pp = g_sb->UNSAFE_accept_pointer(reinterpret_cast<char**>(g_win + off));
      auto& cellref = *pp;
      if (variant == "strsc") {
        cellref.copy_and_verify_string([&](std::string v) {
          out = inspect(v.data(), v.size()) + " alloc=" + std::to_string(v.size());
          return 0;
        });
      } else {
        g_track_new = true; g_last_array_new = 0;
        cellref.copy_and_verify_string([&](std::unique_ptr<char[]> v) {
          g_track_new = false;
          if (!v) out = "NULLPTR";
          else out = inspect(v.get(), g_last_array_new) + " alloc=" + std::to_string(g_last_array_new);
          return 0;
        });
        g_track_new = false;
      }
    } else if (variant == "rangec") {
      out = by_size(a, [&](auto tg) {
        using T = typename decltype(tg)::type;
        auto pp = g_sb->UNSAFE_accept_pointer(reinterpret_cast<T**>(g_win + off));
        auto& cellref = *pp;
        std::string o;
        g_track_new = true; g_last_array_new = 0;
        cellref.copy_and_verify_range([&](std::unique_ptr<T[]> v) {
          g_track_new = false;
          if (!v) o = "NULLPTR";
          else o = inspect(v.get(), g_last_array_new) + " alloc=" + std::to_string(g_last_array_new);
          return 0;
        }, b);
        g_track_new = false;
        return o;
      });
    } else if (variant == "arrv") {
      // copy_and_verify on a fixed-size ARRAY that lies in sandbox memory, verifier taking it by const reference (the usual
      // signature): the object handed over is a copy in application memory.  a = element size (1: char, 2: short, 4: float, 8: double)
      auto go = [&](auto tg) {
        using T = typename decltype(tg)::type;
        auto p = g_sb->UNSAFE_accept_pointer(reinterpret_cast<T(*)[4]>(g_win + off));
        (*p).copy_and_verify([&](const std::array<T, 4>& v) { out = inspect(v.data(), sizeof(T) * 4); return 0; });
      };
      if (a == 1) go(tag<char>{});
      else if (a == 2) go(tag<short>{});
      else if (a == 4) go(tag<float>{});
      else go(tag<double>{});
    } else if (variant == "ptrsw") {
      // copy_and_verify on a pointer-to-struct CELL; every read notification of the cell is a point of the schedule too
      auto pp = g_sb->UNSAFE_accept_pointer(reinterpret_cast<SV**>(g_win + off));
      auto& cellref = *pp;
      g_read_cell = g_win + off;
      rlbox::detail::verif_read_hook = read_hook;
      try {
        cellref.copy_and_verify([&](std::unique_ptr<tainted<SV>> v) {
          if (!v) { out = "NULLPTR"; return 0; }
          SV img = v->UNSAFE_unverified();
          out = inspect(&img, sizeof(SV));
          return 0;
        });
      } catch (...) { rlbox::detail::verif_read_hook = nullptr; g_read_cell = nullptr; throw; }
      rlbox::detail::verif_read_hook = nullptr;
      g_read_cell = nullptr;
    } else if (variant == "uspc") {
      // unverified_safe_pointer_because(count) on a pointer cell of the window (C10)
      auto pp = g_sb->UNSAFE_accept_pointer(reinterpret_cast<char**>(g_win + off));
      auto& cellref = *pp;
      g_be_seen = false;
      rlbox::verif_backend_hook = be_hook;
      char* got = nullptr;
      try { got = cellref.unverified_safe_pointer_because(a, "bulk operation follows"); }
      catch (...) { rlbox::verif_backend_hook = nullptr; throw; }
      rlbox::verif_backend_hook = nullptr;
      out = "A " + std::to_string(got == nullptr ? 0 : reinterpret_cast<uintptr_t>(got) - g_base);
    } else if (variant == "cvba" || variant == "cva") {
      auto pp = g_sb->UNSAFE_accept_pointer(reinterpret_cast<char**>(g_win + off));
      auto& cellref = *pp;      // tainted_volatile<char*>&: the pointer itself lives in sandbox memory
      g_be_seen = false;
      rlbox::verif_backend_hook = be_hook;
      uintptr_t got = 1;
      try {
        if (variant == "cvba") cellref.copy_and_verify_buffer_address([&](uintptr_t v) { got = v; return 0; }, a);
        else cellref.copy_and_verify_address([&](uintptr_t v) { got = v; return 0; });
      } catch (...) { rlbox::verif_backend_hook = nullptr; throw; }
      rlbox::verif_backend_hook = nullptr;
      out = "A " + std::to_string(got == 0 ? 0 : got - g_base);
    } else {
      throw std::runtime_error("HARNESS bad variant");
    }
    out += " ticks=" + std::to_string(g_tick);
  } catch (...) {
    g_track_new = false;
    rlbox::detail::verif_interleave_hook = nullptr;
    throw;
  }
  rlbox::detail::verif_interleave_hook = nullptr;
  return out;
}

int main(int argc, char** argv)
{
  g_sb = std::make_unique<sandbox_t>();
  Sbx::fixed_base_hint = uintptr_t(1) << 44;
  g_sb->create_sandbox(nullptr, false);
  g_base = g_sb->get_sandbox_impl()->region_base();
  return case_loop(argc, argv, run_case);
}
